"""Check runner: explores every harness of a property (parallel, partitioned), replays counterexamples on the
real program, applies the known-findings list, writes the evidence file, prints the verdict lines."""
import hashlib
import importlib
import json
import multiprocessing as mp
import os
import subprocess
import sys
import time
import traceback

from . import pse

VERIF = os.path.dirname(os.path.dirname(os.path.abspath(__file__)))
PROPS = ["C%02d" % i for i in range(1, 21)]

REPO = os.environ.get("VERIF_REPO", "/repo").rstrip("/")
EXIT_OK, EXIT_VIOLATION, EXIT_INCONCLUSIVE, EXIT_HARNESS = 0, 1, 2, 3


class Harness:
    def __init__(self, name, fn, mode="scenario", frontier=4, budget_s=600, bounds=None, outside=None, stubs=None,
                 backend=None, real=True, twin_paths=12, conformance=3, what="", real_opts=None):
        self.name, self.fn, self.mode = name, fn, mode
        self.frontier, self.budget_s = frontier, budget_s
        self.bounds, self.outside, self.stubs = bounds or {}, outside or [], stubs or []
        self.backend = backend or {}
        self.real = real
        self.real_opts = real_opts or {}
        self.twin_paths = twin_paths
        self.conformance = conformance
        self.what = what


def load_harnesses(prop, tier):
    mod = importlib.import_module("verif.harness.%s" % prop.lower())
    hs = mod.harnesses(tier)
    only = os.environ.get("VERIF_ONLY")  # development aid: run a single harness
    return [h for h in hs if h.name == only] if only else hs


# ----------------------------------------------------------------------------------------------- one path
class TwinEnd(pse.PseAbort):
    pass


def run_model_path(h, engine, twin=False):
    """one symbolic path of harness h"""
    from .backend import ModelBackend, EngSym
    if h.mode == "unit":
        from . import tokens
        tokens.reset()
        h.fn(EngSym(engine))
    else:
        b = ModelBackend(engine, **h.backend)
        try:
            h.fn(b, EngSym(engine))
        finally:
            b.close()
    if twin:
        raise pse.Violation("twin-false", "reachability witness")


_PROFILE_FUNCS = set()


def _profiler(frame, event, arg):
    if event == "call":
        co = frame.f_code
        fn = co.co_filename
        if fn.startswith(REPO + "/ascmhl/") and "<" not in co.co_qualname and frame.f_back is not None and \
                not (frame.f_back.f_code.co_name == "<module>" and frame.f_back.f_code.co_filename == fn and co.co_name[:1].isupper()):
            _PROFILE_FUNCS.add("%s:%s" % (fn[len(REPO) + 1:], co.co_qualname))


def _explore(args):
    prop, tier, hi, prefix, deadline, frontier, twin, profile, max_paths, nsamples = args
    h = load_harnesses(prop, tier)[hi]
    e = pse.Engine(prefix=prefix, frontier_depth=frontier, deadline=deadline, max_paths=max_paths)
    samples = []

    def on_end(eng):
        if len(samples) < nsamples and eng.path_two_sided > 0:
            try:
                samples.append({"inputs": eng.model_values(), "note": eng.path_note})
            except pse.PseAbort:
                pass

    e.on_path_end = on_end if nsamples else None
    err = None
    t0 = time.time()
    try:
        if profile:
            sys.setprofile(_profiler)
        try:
            e.explore(lambda eng: run_model_path(h, eng, twin))
        finally:
            if profile:
                sys.setprofile(None)
    except pse.PseAbort as ex:
        err = "%s: %s" % (type(ex).__name__, ex)
        if os.environ.get("VERIF_DEBUG"):
            err += "\n" + "".join(traceback.format_exception(ex))[-2500:]
        e.status = "error"
    except Exception as ex:
        err = "harness exception: %s" % "".join(traceback.format_exception(ex))[-3000:]
        e.status = "error"
    st = e.stats()
    st.update(error=err, wall_s=round(time.time() - t0, 3), violations=e.violations, frontier=e.frontier,
              reach=e.reach, samples=samples, funcs=sorted(_PROFILE_FUNCS) if profile else [])
    return st


# ----------------------------------------------------------------------------------------------- harness run
def run_harness(prop, tier, hi, h, pool, log, dense_samples=False):
    t0 = time.time()
    deadline = t0 + h.budget_s
    agg = dict(name=h.name, what=h.what, paths=0, nontrivial_paths=0, decisions_two_sided=0, forced=0, queries=0,
               unknown=0, solver_s=0.0, dropped_infeasible=0, max_depth=0, partitions=0, violations=[], reach={},
               samples=[], funcs=[], errors=[], status="exhausted", bounds=h.bounds, outside=h.outside)

    def merge(st):
        for k in ("paths", "nontrivial_paths", "decisions_two_sided", "forced", "queries", "unknown", "dropped_infeasible"):
            agg[k] += st[k]
        agg["solver_s"] += st["solver_s"]
        agg["max_depth"] = max(agg["max_depth"], st["max_depth"])
        agg["violations"] += st["violations"]
        for k, v in st["reach"].items():
            agg["reach"][k] = agg["reach"].get(k, 0) + v
        agg["samples"] += st["samples"]
        if st["error"]:
            agg["errors"].append(st["error"])
            agg["status"] = "error"
        elif st["status"] != "exhausted" and agg["status"] == "exhausted":
            agg["status"] = st["status"]

    # pass 1: master explores down to the frontier depth (in a worker process, so the parent stays z3-free)
    many = h.conformance > 8
    st = pool.apply(_explore, ((prop, tier, hi, None, deadline, h.frontier, False, True, None, h.conformance if many else (8 if dense_samples else 2)),))
    agg["funcs"] = st["funcs"]
    frontier = st["frontier"]
    merge(st)
    agg["partitions"] = len(frontier)
    log("  [%s] pre-pass: %d paths, %d partitions, %.1fs" % (h.name, st["paths"], len(frontier), st["wall_s"]))
    # pass 2: partitions in parallel
    if frontier and agg["status"] != "error":
        jobs = [(prop, tier, hi, pre, deadline, None, False, False, None, (h.conformance if many else (2 if dense_samples else (1 if i < 6 else 0))))
                for i, pre in enumerate(frontier)]
        for st in pool.imap_unordered(_explore, jobs):
            merge(st)
    # vacuity twin
    tw = pool.apply(_explore, ((prop, tier, hi, None, time.time() + 120, None, True, False, h.twin_paths, 0),))
    agg["twin_paths"] = tw["paths"]
    agg["twin_violations"] = len([v for v in tw["violations"] if v["assert"] == "twin-false"])
    if agg["twin_violations"] == 0 and not tw["violations"]:
        agg["errors"].append("vacuous harness: reachability twin never reached the end (%s)" % tw.get("error"))
        agg["status"] = "error"
    agg["wall_s"] = round(time.time() - t0, 2)
    agg["solver_s"] = round(agg["solver_s"], 2)
    return agg


# ----------------------------------------------------------------------------------------------- replay
def replay_real(prop, tier, hname, vectors, timeout=1800, mode="cex"):
    """run input vectors through the harness on the RealBackend in a fresh process; returns list of results"""
    if not vectors:
        return []
    os.makedirs(os.path.join(VERIF, "work"), exist_ok=True)
    req = os.path.join(VERIF, "work", "replayreq-%s-%s-%d.json" % (prop, hname, os.getpid()))
    with open(req, "w") as f:
        json.dump({"property": prop, "tier": tier, "harness": hname, "vectors": vectors, "mode": mode}, f)
    try:
        p = subprocess.run([sys.executable, "-m", "verif.replay", "--batch", req], cwd=VERIF, capture_output=True,
                           text=True, timeout=timeout, env=dict(os.environ, PYTHONHASHSEED="0"))
    except subprocess.TimeoutExpired:
        return [{"error": "replay timeout"}] * len(vectors)
    finally:
        try:
            os.remove(req)
        except OSError:
            pass
    for line in reversed(p.stdout.strip().split("\n")):
        if line.startswith("REPLAY-RESULT "):
            return json.loads(line[len("REPLAY-RESULT "):])
    return [{"error": "replay crashed: %s" % (p.stderr[-2000:] or p.stdout[-2000:])}] * len(vectors)


def witness_path(prop):
    return os.path.join(VERIF, "verif", "witness", "%s.json" % prop)


def load_witness(prop, tier, hname):
    try:
        d = json.load(open(witness_path(prop)))
    except (OSError, ValueError):
        return []
    return d.get(tier, {}).get(hname, []) or d.get("quick", {}).get(hname, [])


def update_witness(prop, tier, out=print):
    """regenerate the committed corpus of solver witnesses (one input vector per sampled path) for the fallback replays"""
    hs = load_harnesses(prop, tier)
    ctx = mp.get_context("fork")
    try:
        d = json.load(open(witness_path(prop)))
    except (OSError, ValueError):
        d = {}
    d.setdefault(tier, {})
    with ctx.Pool(int(os.environ.get("VERIF_JOBS", "16")), maxtasksperchild=20) as pool:
        for hi, h in enumerate(hs):
            if not h.real:
                continue
            agg = run_harness(prop, tier, hi, h, pool, out, dense_samples=True)
            vecs, seen = [], set()
            for s_ in agg["samples"]:
                k = json.dumps(s_["inputs"], sort_keys=True)
                if k not in seen:
                    seen.add(k)
                    vecs.append(s_["inputs"])
            cap = max(40, min(h.conformance, 120))  # harnesses that ask for many conformance replays keep as many witnesses
            step = max(1, len(vecs) // cap)
            d[tier][h.name] = vecs[::step][:cap]
            out("  witness corpus %s: %d vectors" % (h.name, len(d[tier][h.name])))
    os.makedirs(os.path.dirname(witness_path(prop)), exist_ok=True)
    json.dump(d, open(witness_path(prop), "w"), indent=0, sort_keys=True)


def load_known():
    p = os.path.join(VERIF, "known_findings.json")
    if not os.path.exists(p):
        return []
    return json.load(open(p))["findings"]


def match_known(known, prop, v):
    import re
    for k in known:
        if k["property"] != prop or k.get("status") != "known":
            continue
        m = k.get("match", {})
        if m.get("assert") and m["assert"] != v["assert"]:
            continue
        if m.get("detail_re") and not re.search(m["detail_re"], v.get("detail", "")):
            continue
        if m.get("harness") and m["harness"] != v.get("harness"):
            continue
        return k
    return None


def vkey(v):
    d = v.get("detail", "")
    return (v["assert"], d.split("|")[0][:80])


# ----------------------------------------------------------------------------------------------- property run
def check_property(prop, tier, seed, out=print):
    t0 = time.time()
    hs = load_harnesses(prop, tier)
    known = load_known()
    ctx = mp.get_context("fork")
    nproc = int(os.environ.get("VERIF_JOBS", "16"))
    results, verdict_lines = [], []
    exit_code = EXIT_OK
    confirmed, known_seen, harness_errors, inconclusive = [], [], [], []
    traces_validated = 0
    with ctx.Pool(nproc, maxtasksperchild=20) as pool:
        for hi, h in enumerate(hs):
            def fallback(h, agg):
                # the symbolic model could not follow the code under test (model gap / concretisation / spurious counterexample):
                # as a safety net the committed solver witnesses of this harness are replayed concretely on the real program
                nonlocal traces_validated
                if not h.real or agg.get("fallback_witness_replays") is not None:
                    return
                vecs = load_witness(prop, tier, h.name)
                rr = replay_real(prop, tier, h.name, vecs, mode="conformance")
                traces_validated += len(rr)
                agg["fallback_witness_replays"] = len(rr)
                seen_a = set()
                for vec, r in zip(vecs, rr):
                    if r.get("violation") and r["violation"]["assert"] not in seen_a:
                        seen_a.add(r["violation"]["assert"])
                        rv = dict(r["violation"], harness=h.name)
                        k = match_known(known, prop, rv)
                        if k:
                            known_seen.append((k, rv))
                        else:
                            v = {"inputs": vec, "assert": rv["assert"], "detail": rv["detail"], "harness": h.name,
                                 "note": "found by concrete replay of committed solver witnesses after a model gap"}
                            confirmed.append((v, r, write_replay_file(prop, tier, h.name, v, r)))

            if confirmed and os.environ.get("VERIF_FAILFAST"):
                out("  [%s] skipped: VERIF_FAILFAST is set and a violation is already confirmed" % h.name)
                continue  # (sweeps over seeded changes only need the verdict; never set for registered commands)
            agg = run_harness(prop, tier, hi, h, pool, out)
            results.append(agg)
            out("  [%s] %s: %d paths (%d non-trivial), %d queries, solver %.1fs, wall %.1fs, %d violating paths"
                % (h.name, agg["status"], agg["paths"], agg["nontrivial_paths"], agg["queries"], agg["solver_s"],
                   agg["wall_s"], len(agg["violations"])))
            if agg["status"] == "error":
                harness_errors += ["%s: %s" % (h.name, e) for e in agg["errors"]]
                fallback(h, agg)
                continue
            if agg["status"] != "exhausted":
                inconclusive.append("%s: %s" % (h.name, agg["status"]))
            # ---- replay counterexamples: per assertion id up to 4 variants (distinct details), one batch process
            groups = {}
            for v in agg["violations"]:
                v["harness"] = h.name
                groups.setdefault(v["assert"], {}).setdefault(vkey(v)[1], v)
            agg["violation_keys"] = [[a, len(vs)] for a, vs in groups.items()]
            for aid, variants in groups.items():
                if not h.real:
                    harness_errors.append("%s: violation %s found but harness has no real replay" % (h.name, aid))
                    continue
                tries = list(variants.values())
                step = max(1, len(tries) // 4)
                tries = tries[::step][:4]
                rr = replay_real(prop, tier, h.name, [v["inputs"] for v in tries])
                traces_validated += len(rr)
                reproduced = [(v, r) for v, r in zip(tries, rr) if r.get("violation")]
                if not reproduced:
                    harness_errors.append("%s: counterexample for %s did not reproduce on the real program (%s) inputs=%s"
                                          % (h.name, aid, json.dumps(rr)[:600], json.dumps(tries[0]["inputs"])[:400]))
                    fallback(h, agg)
                    continue
                for v, r in reproduced:
                    same = [x for x in r.get("all_violations", []) if x["assert"] == v["assert"]]
                    rv = dict(same[0] if same else r["violation"], harness=h.name)
                    k = match_known(known, prop, rv) if same or not r.get("all_violations") else None
                    if k is None and not same:
                        # the real run violates other assertions than the model path did: every one of them must be a listed finding
                        ks = [match_known(known, prop, dict(x, harness=h.name)) for x in r.get("all_violations", [r["violation"]])]
                        k = ks[0] if ks and all(ks) else None
                    if k:
                        known_seen.append((k, v))
                    else:
                        path = write_replay_file(prop, tier, h.name, v, r)
                        confirmed.append((v, r, path))
            # ---- conformance: passing paths replayed on the real program must pass there too
            if h.real and h.conformance and not agg["violations"]:
                vecs = [s["inputs"] for s in agg["samples"][:h.conformance]]
                rr = replay_real(prop, tier, h.name, vecs, mode="conformance")
                for vec, r in zip(vecs, rr):
                    traces_validated += 1
                    if r.get("violation"):
                        rv = dict(r["violation"], harness=h.name)
                        k = match_known(known, prop, rv)
                        if k:
                            known_seen.append((k, rv))
                        else:
                            path = write_replay_file(prop, tier, h.name, {"inputs": vec, "assert": rv["assert"],
                                                                         "detail": rv["detail"]}, r)
                            confirmed.append(({"inputs": vec, "assert": rv["assert"], "detail": rv["detail"],
                                               "harness": h.name, "model_missed": True}, r, path))
                    elif r.get("error"):
                        harness_errors.append("%s: conformance replay failed: %s" % (h.name, r["error"][-800:]))
    seen = set()
    for k, v in known_seen:
        if k["key"] not in seen:
            seen.add(k["key"])
            out("KNOWN-FINDING: property=%s %s" % (prop, k["what"]))
    for v, r, path in confirmed:
        out("VIOLATION property=%s replay=%s" % (prop, path))
        out("  assert=%s harness=%s detail=%s" % (v["assert"], v.get("harness"), str(v.get("detail"))[:300]))
    if confirmed:
        exit_code = EXIT_VIOLATION
    elif harness_errors:
        exit_code = EXIT_HARNESS
    elif inconclusive:
        exit_code = EXIT_INCONCLUSIVE
    for e in harness_errors:
        out("HARNESS-ERROR %s" % e)
    for e in inconclusive:
        out("INCONCLUSIVE %s" % e)
    write_evidence(prop, tier, seed, results, traces_validated, len(confirmed), [k["key"] for k, _ in known_seen],
                   harness_errors, inconclusive, time.time() - t0, hs)
    out("%s %s: exit %d (%.1fs)" % (prop, tier, exit_code, time.time() - t0))
    return exit_code


def write_replay_file(prop, tier, hname, v, r):
    d = os.path.join(VERIF, "replays", prop)
    os.makedirs(d, exist_ok=True)
    body = {"property": prop, "tier": tier, "harness": hname, "inputs": v["inputs"], "assert": v["assert"],
            "detail": v.get("detail"), "model_note": v.get("note"), "real_result": r}
    s = json.dumps(body, indent=1, sort_keys=True, default=str)
    path = os.path.join(d, hashlib.sha1(s.encode()).hexdigest()[:12] + ".json")
    with open(path, "w") as f:
        f.write(s)
    return path


def write_evidence(prop, tier, seed, results, traces_validated, nviol, known_keys, herrs, inconc, wall, hs):
    from . import world
    paths = sum(r["paths"] for r in results)
    nontriv = sum(r["nontrivial_paths"] for r in results)
    funcs = sorted(set(f for r in results for f in r["funcs"]))
    samples = []
    for r in results:
        for s in r["samples"][:3]:
            samples.append({"harness": r["name"], "witness_inputs": s["inputs"], "note": s.get("note")})
    if not samples:
        samples = [{"harness": r["name"], "note": "no path with a symbolic decision"} for r in results]
    obligations = sum(sum(r["reach"].values()) for r in results)
    cov = {
        "states": max(paths, 1),
        "transitions": max(sum(r["decisions_two_sided"] + r["forced"] for r in results), 1),
        "traces_validated_against_impl": traces_validated,
        "samples": samples[:12],
        "evaluations": max(paths, 1),
        "distinct_nontrivial": nontriv,
        "rule": "one evaluation = one feasible path of the decision tree of the real code on symbolic inputs (each stands "
                "for all concrete inputs satisfying its path condition); paths are distinct by construction (DFS over "
                "solver-decided branches); non-trivial = at least one two-sided symbolic decision on the path",
        "obligations": obligations,
        "discharged": obligations if not nviol and not herrs and not inconc else 0,
        "exhaustive": all(r["status"] == "exhausted" for r in results) and not herrs,
        "solver": "z3 %s (python API)" % _z3v(),
        "queries": sum(r["queries"] for r in results),
        "solver_s": round(sum(r["solver_s"] for r in results), 2),
        "unknown_answers": sum(r["unknown"] for r in results),
        "functions_encoded": funcs,
        "harnesses": [{k: r.get(k) for k in ("name", "what", "status", "paths", "nontrivial_paths", "partitions",
                                             "decisions_two_sided", "forced", "queries", "solver_s", "wall_s",
                                             "max_depth", "dropped_infeasible", "twin_paths", "twin_violations", "fallback_witness_replays",
                                             "bounds", "outside", "reach", "violation_keys", "errors")}
                      for r in results],
        "known_findings_seen": sorted(set(known_keys)),
        "harness_errors": herrs,
        "inconclusive": inconc,
        "stubs": world.STUBS + sorted(set(s for h in hs for s in h.stubs)),
        "explanation": "bounded symbolic execution (pse over z3) of the real /repo/ascmhl functions listed in "
                       "functions_encoded; verdict = decision tree exhausted with no feasible assertion failure; "
                       "counterexamples and sampled passing paths are replayed on the real CLI in a scratch directory",
    }
    ev = {
        "property_id": prop, "tier": tier, "seed": seed, "level": "model_checking", "coverage": cov,
        "assumptions": [
            "digest algorithms (md5, sha1, sha512, xxh32/64/3-64/3-128) compute the standard functions and are "
            "collision-free on the inputs of one run (modelled as injective uninterpreted functions)",
            "lxml serialises/parses the XML infoset faithfully; escaping and encodings are outside the model",
            "POSIX path semantics; symbolic links only where a harness names them (c14-side-effects, c19-linked); no special files or permission errors",
            "click option parsing is exercised only in the real replays; symbolic runs start at the command callbacks",
            "bounds per harness are listed under coverage.harnesses[*].bounds; nothing is claimed outside them",
        ],
        "wall_s": round(wall, 2), "violations": nviol,
    }
    os.makedirs(os.path.join(VERIF, "evidence"), exist_ok=True)
    with open(os.path.join(VERIF, "evidence", "%s.json" % prop), "w") as f:
        json.dump(ev, f, indent=1, default=str)


def _z3v():
    try:
        import z3
        return z3.get_version_string()
    except Exception:
        return "?"


def main(argv=None):
    import argparse
    ap = argparse.ArgumentParser()
    ap.add_argument("prop")
    ap.add_argument("--tier", default=os.environ.get("VERIF_TIER", "quick"))
    ap.add_argument("--replay")
    ap.add_argument("--update-witness", action="store_true")
    a = ap.parse_args(argv)
    seed = int(os.environ.get("VERIF_SEED", "0"))
    if a.replay:
        from . import replay
        return replay.main(["--file", a.replay])
    import ascmhl
    if os.path.dirname(os.path.abspath(ascmhl.__file__)) != REPO + "/ascmhl":
        print("HARNESS-ERROR ascmhl imported from %s, not %s" % (ascmhl.__file__, REPO))
        return EXIT_HARNESS
    if a.update_witness:
        update_witness(a.prop.upper(), a.tier)
        return 0
    try:
        return check_property(a.prop.upper(), a.tier, seed)
    except pse.PseAbort as ex:
        print("HARNESS-ERROR %s: %s" % (type(ex).__name__, ex))
        return EXIT_HARNESS


if __name__ == "__main__":
    sys.exit(main())
