"""Contracts for CrossHair (second, independent symbolic engine; thorough tier of C01 and C12).
Each function runs REAL code of /repo/ascmhl on CrossHair's symbolic values; the docstring carries the PEP-316 contract."""
from typing import List

import ascmhl.hasher as H
from ascmhl.ignore import MHLIgnoreSpec, default_ignore_list

MiB = 1024 * 1024


class _Chunk:
    def __init__(self, start, end):
        self.start, self.end = start, end

    def __bool__(self):
        return True if self.end > self.start else False

    def __len__(self):
        return self.end - self.start


class _File:
    def __init__(self, n):
        self.n, self.pos, self.reads = n, 0, 0

    def __enter__(self):
        return self

    def __exit__(self, *a):
        return False

    def read(self, size=-1):
        self.reads += 1
        if self.reads > 14:
            raise RuntimeError("unwinding bound exceeded")
        avail = self.n - self.pos
        k = avail if (size < 0 or size > avail) else size
        c = _Chunk(self.pos, self.pos + k)
        self.pos = self.pos + k
        return c


class _Rec:
    def __init__(self):
        self.ivs = []

    def update(self, chunk):
        self.ivs.append((chunk.start, chunk.end))

    def hexdigest(self):
        return "00"


def _partition(ivs, n) -> bool:
    pos = 0
    for (a, b) in ivs:
        if a != pos or b <= a:
            return False
        pos = b
    return pos == n


def single_loop_covers(n: int) -> bool:
    """
    pre: 0 <= n <= 8 * 1048576 + 1
    post: _ == True
    """
    made = []

    class P(H.HexHasher):
        @staticmethod
        def hashlib_type():
            def mk():
                r = _Rec()
                made.append(r)
                return r
            return mk

    ff = _File(n)
    H.open = lambda path, mode="r": ff
    try:
        P.hash_file("/x")
    finally:
        del H.open
    return len(made) == 1 and _partition(made[0].ivs, n)


def aggregate_loop_covers(n: int) -> bool:
    """
    pre: 0 <= n <= 8 * 1048576 + 1
    post: _ == True
    """
    made = []
    real_new = H.new_hasher_for_hash_type

    class P(H.HexHasher):
        @staticmethod
        def hashlib_type():
            def mk():
                r = _Rec()
                made.append(r)
                return r
            return mk

    ff = _File(n)
    H.open = lambda path, mode="r": ff
    H.new_hasher_for_hash_type = lambda fmt: P()
    try:
        out = H.AggregateHasher.hash_file("/x", ["md5", "c4", "xxh64"])
    finally:
        del H.open
        H.new_hasher_for_hash_type = real_new
    return len(made) == 3 and sorted(out) == ["c4", "md5", "xxh64"] and all(_partition(r.ivs, n) for r in made)


def patterns_accumulate(prev: List[str], new: List[str]) -> bool:
    """
    pre: len(prev) <= 2 and len(new) <= 2
    pre: all(len(p) <= 2 for p in prev) and all(len(p) <= 2 for p in new)
    pre: len(set(prev)) == len(prev)
    post: _ == True
    """
    got = MHLIgnoreSpec(prev if prev else None, new).get_pattern_list()
    exp = list(prev) if prev else default_ignore_list()
    for p in new:
        if p not in exp:
            exp.append(p)
    return got == exp
