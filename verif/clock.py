"""Clock / time-zone model: stand-ins for `datetime`, `time` and `dateutil.parser.parse`.

A FakeDatetime denotes an *instant* t (seconds since the epoch, int or SymInt) plus microseconds, and either
`off is None` (naive local wall time: wall = t + zone.off(t)) or an explicit UTC offset in seconds.
With concrete values everything renders to ordinary strings (through the real datetime module); with
symbolic values isoformat()/strftime() return `IsoStr` tokens that carry (t, micro, off).
"""
import datetime as _dt
import types
import z3
from . import pse, tokens
from .pse import SymInt, SymBool


def _conc(*xs):
    return all(not isinstance(x, (SymInt, SymBool)) for x in xs)


class IsoStr(str):
    """a rendered date whose parts are symbolic: carries instant, microsecond, offset (None = naive) and format"""

    def __new__(cls, t, micro, off, fmt="iso"):
        o = str.__new__(cls, tokens.new_key("ISO"))
        o.t, o.micro, o.off, o.fmt = t, micro, off, fmt
        tokens.register(o)
        return o

    def __hash__(self):
        raise pse.Concretisation("hash(IsoStr)")


class FakeTimedelta:
    def __init__(self, days=0, seconds=0, microseconds=0, milliseconds=0, minutes=0, hours=0, weeks=0):
        self.secs = seconds + 60 * minutes + 3600 * hours + 86400 * days + 604800 * weeks
        self.micro = microseconds + 1000 * milliseconds

    def total_seconds(self):
        return self.secs

    def __neg__(self):
        return FakeTimedelta(seconds=-self.secs, microseconds=-self.micro)

    def __radd__(self, other):
        if isinstance(other, _dt.datetime) and _conc(self.secs, self.micro):
            return other + _dt.timedelta(seconds=self.secs, microseconds=self.micro)
        return NotImplemented

    def __rsub__(self, other):
        if isinstance(other, _dt.datetime) and _conc(self.secs, self.micro):
            return other - _dt.timedelta(seconds=self.secs, microseconds=self.micro)
        return NotImplemented

    def __eq__(self, o):
        return isinstance(o, FakeTimedelta) and self.secs == o.secs and self.micro == o.micro

    __hash__ = None


class FakeTimezone:
    def __init__(self, offset=None, name=None):
        if offset is None:
            offset = FakeTimedelta()
        if isinstance(offset, _dt.timedelta):
            offset = FakeTimedelta(seconds=int(offset.total_seconds()))
        self.offset = offset

    def utcoffset(self, d=None):
        return self.offset


FakeTimezone.utc = FakeTimezone(FakeTimedelta(0))


class FakeDatetime:
    def __init__(self, world, t, micro=0, off=None, fold_known=True):
        self.world, self._t, self.micro, self.off = world, t, micro, off
        # a naive local wall-clock value inside the hour that is repeated when daylight saving ends is ambiguous; Python
        # disambiguates it with `fold`, which fromtimestamp() sets correctly and datetime arithmetic resets to 0 (first occurrence)
        self.fold_known = fold_known

    @property
    def t(self):
        """the instant this object denotes when it is interpreted in the local zone"""
        if self.off is not None or self.fold_known:
            return self._t
        z = self.world.zone
        second = z.second_occurrence(self._t)
        if second is False:
            return self._t
        shift = z.dst - z.std
        if second is True:
            return self._t - shift
        return SymInt(z3.If(second.z, pse._z(self._t) - pse._z(shift), pse._z(self._t)))

    def _arith(self, td, sign):
        if isinstance(td, _dt.timedelta):
            td = FakeTimedelta(seconds=td.days * 86400 + td.seconds, microseconds=td.microseconds)
        if not isinstance(td, FakeTimedelta):
            return NotImplemented
        return FakeDatetime(self.world, self._t + sign * td.secs, self.micro + sign * td.micro, self.off, fold_known=(self.off is not None))

    def __add__(self, td):
        return self._arith(td, 1)

    __radd__ = __add__

    def __sub__(self, td):
        if isinstance(td, FakeDatetime):
            return FakeTimedelta(seconds=self.t - td.t, microseconds=self.micro - td.micro)
        return self._arith(td, -1)

    # ---- constructors (bound through FakeDatetimeClass)
    def replace(self, microsecond=None, tzinfo="keep", **kw):
        if kw:
            raise pse.HarnessError("FakeDatetime.replace(%s) not modelled" % ",".join(kw))
        micro = self.micro if microsecond is None else microsecond
        if tzinfo == "keep":
            return FakeDatetime(self.world, self._t, micro, self.off, self.fold_known)
        wall_off = self.world.zone.off(self.t) if self.off is None else self.off
        if tzinfo is None:
            # drop tzinfo, keep the wall clock: read as local wall time again (only exact when offsets agree)
            raise pse.HarnessError("replace(tzinfo=None) not modelled")
        new_off = _tz_off(tzinfo, self.t)
        # same wall clock, other offset: instant moves by (wall_off - new_off)
        return FakeDatetime(self.world, self.t + wall_off - new_off, micro, new_off)

    def astimezone(self, tz=None):
        if tz is None:
            return FakeDatetime(self.world, self.t, self.micro, self.world.zone.off(self.t))
        return FakeDatetime(self.world, self.t, self.micro, _tz_off(tz, self.t))

    def timestamp(self):
        return self.t

    def utcoffset(self):
        return None if self.off is None else FakeTimedelta(seconds=self.off)

    @property
    def tzinfo(self):
        return None if self.off is None else FakeTimezone(FakeTimedelta(seconds=self.off))

    @property
    def microsecond(self):
        return self.micro

    def _real(self):
        off = self.world.zone.off(self.t) if self.off is None else self.off
        if not _conc(self.t, self.micro, off):
            return None
        d = _dt.datetime.fromtimestamp(self.t, _dt.timezone(_dt.timedelta(seconds=off))).replace(microsecond=self.micro)
        if self.off is None:
            d = d.replace(tzinfo=None)
        return d

    def isoformat(self, sep="T", timespec="auto"):
        r = self._real()
        if r is not None:
            return r.isoformat(sep, timespec)
        return IsoStr(self.t, self.micro, self.off)

    def strftime(self, fmt):
        r = self._real()
        if r is not None:
            return r.strftime(fmt)
        return IsoStr(self.t, self.micro, self.off, fmt)

    def __str__(self):
        r = self._real()
        return str(r) if r is not None else IsoStr(self.t, self.micro, self.off, "str")

    __repr__ = lambda self: "<FakeDatetime %r %r %r>" % (self.t, self.micro, self.off)

    def __format__(self, spec):
        return str(self) if not spec else self.strftime(spec)

    def same(self, o):
        """same instant, microsecond and offset-kind"""
        if not isinstance(o, FakeDatetime):
            return False
        if (self.off is None) != (o.off is None):
            return False
        r = pse_and(eqv(self.t, o.t), eqv(self.micro, o.micro))
        if self.off is not None:
            r = pse_and(r, eqv(self.off, o.off))
        return r

    def __eq__(self, o):
        return self.same(o)

    __hash__ = None


def eqv(a, b):
    r = a == b
    return r


def pse_and(a, b):
    if isinstance(a, bool):
        return b if a else False
    if isinstance(b, bool):
        return a if b else False
    return a & b


class FakeTzLocal:
    """dateutil.tz.tzlocal(): offsets from time.timezone / time.altzone, DST flag from time.localtime - today's rules"""

    def __init__(self, world):
        self.world = world

    def offset_for(self, t):
        return self.world.zone.off_by_todays_rules(t)

    def utcoffset(self, d):
        return FakeTimedelta(seconds=self.offset_for(d.t if isinstance(d, FakeDatetime) else self.world.now))


class FakeTzModule:
    _verif_stand_in = "tz-module"

    def __init__(self, world):
        w = world
        self.tzlocal = lambda: FakeTzLocal(w)
        self.tzutc = lambda: FakeTimezone.utc
        self.UTC = FakeTimezone.utc
        self.tzoffset = lambda name, off: FakeTimezone(off if isinstance(off, FakeTimedelta) else FakeTimedelta(seconds=off))

    def __getattr__(self, k):
        raise pse.HarnessError("dateutil.tz.%s not modelled" % k)


def _tz_off(tz, t=None):
    if isinstance(tz, FakeTzLocal):
        return tz.offset_for(t)
    if isinstance(tz, FakeTimezone):
        return tz.offset.secs
    if isinstance(tz, _dt.tzinfo):
        return int(tz.utcoffset(None).total_seconds())
    raise pse.HarnessError("unknown tzinfo %r" % (tz,))


class FakeDatetimeModule:
    """stands in for the `datetime` module (ascmhl.utils, ascmhl.commands) and, through .datetime, for the class"""

    def __init__(self, world):
        w = world
        self.timedelta = FakeTimedelta
        self.timezone = FakeTimezone
        self._verif_stand_in = "datetime-module"

        class datetime:
            _verif_stand_in = "datetime-class"

            @staticmethod
            def now(tz=None):
                return FakeDatetime(w, w.now, w.now_micro, None if tz is None else _tz_off(tz))

            @staticmethod
            def utcnow():
                # naive object holding the UTC wall clock: as a *local* naive time it denotes t - off(t')...
                # modelled as the instant whose local wall clock equals the UTC wall clock
                return FakeDatetime(w, w.now - w.zone.off(w.now), w.now_micro, None)

            @staticmethod
            def fromtimestamp(t, tz=None):
                if isinstance(t, float):
                    t = int(t)
                return FakeDatetime(w, t, 0, None if tz is None else _tz_off(tz))

            @staticmethod
            def utcfromtimestamp(t):
                return FakeDatetime(w, t - w.zone.off(t), 0, None)

            @staticmethod
            def strftime(d, fmt):
                return d.strftime(fmt)

            @staticmethod
            def isoformat(d, *a):
                return d.isoformat(*a)

            @staticmethod
            def fromisoformat(s):
                return FakeDateutil(w).parser.parse(s)

            @staticmethod
            def timestamp(d):
                return d.timestamp()

        self.datetime = datetime


class FakeTimeModule:
    _verif_stand_in = "time-module"

    def __init__(self, world):
        self._w = world

    @property
    def timezone(self):
        return -self._w.zone.std

    @property
    def altzone(self):
        return -self._w.zone.dst

    @property
    def daylight(self):
        """non-zero iff the zone has daylight-saving rules at all (NOT whether they are in force now)"""
        z = self._w.zone
        if isinstance(z.std, SymInt) or isinstance(z.dst, SymInt):
            return SymInt(z3.If(pse._z(z.std) != pse._z(z.dst), 1, 0))
        return 1 if z.std != z.dst else 0

    def monotonic(self):
        return self._w.now

    def sleep(self, s):
        pass

    def time(self):
        return self._w.now

    def localtime(self, secs=None):
        t = self._w.now if secs is None else secs
        d = self._w.zone.isdst(t)
        isdst = (1 if d else 0) if isinstance(d, bool) else SymInt(z3.If(d.z, 1, 0))
        off = self._w.zone.off(t)
        return types.SimpleNamespace(tm_isdst=isdst, tm_gmtoff=off)

    def __getattr__(self, k):
        raise pse.HarnessError("time.%s not modelled" % k)


_PARSED = {}  # concrete date string -> (instant, microsecond, offset): pure function of the string


class FakeDateutil:
    def __init__(self, world):
        w = world

        def parse(s, *a, **k):
            if isinstance(s, IsoStr):
                return FakeDatetime(w, s.t, s.micro, s.off)
            if isinstance(s, str) and tokens.has_key(s):
                raise pse.Concretisation("dateutil.parse of token")
            key = str.__str__(s)
            hit = _PARSED.get(key)
            if hit is None:
                import dateutil.parser
                d = dateutil.parser.parse(s)
                if d.tzinfo is None:
                    raise pse.HarnessError("naive date string in manifest: %r" % s)
                hit = (int(d.replace(microsecond=0).timestamp()), d.microsecond, int(d.utcoffset().total_seconds()))
                if len(_PARSED) < 20000:
                    _PARSED[key] = hit
            return FakeDatetime(w, hit[0], hit[1], hit[2])

        self.parser = types.SimpleNamespace(parse=parse)
