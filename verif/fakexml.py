"""Infoset model of the part of lxml that ascmhl uses.

E / etree.Element build plain `El` trees; etree.tostring returns an `XmlStr` token; the repo's own
`_write_xml_*_to_file`, textwrap.indent and encode run for real on it.  A written file is therefore a byte
string made of the literal headers/tags the repo writes itself plus token keys; `parse_document` turns it
back into one `El` tree (or raises XMLSyntaxError when it is ill-formed, e.g. truncated).
Not modelled (and outside every claim): escaping, encodings, entities, pretty-printing.
"""
import re
from . import tokens, pse


class XMLSyntaxError(SyntaxError):
    pass


class El:
    __slots__ = ("tag", "text", "attrib", "children", "tail")

    def __init__(self, tag, text=None, attrib=None):
        if not isinstance(tag, str):
            raise TypeError("tag must be str")
        self.tag, self.text, self.attrib, self.children, self.tail = tag, text, _Attrib(attrib or {}), [], None

    def append(self, c):
        if not isinstance(c, El):
            raise TypeError("append() argument must be an Element, not %s" % type(c).__name__)
        self.children.append(c)

    def extend(self, cs):
        for c in cs:
            self.append(c)

    def insert(self, i, c):
        self.children.insert(i, c)

    def set(self, k, v):
        self.attrib[k] = v

    def get(self, k, d=None):
        return self.attrib.get(k, d)

    def __iter__(self):
        return iter(self.children)

    def __len__(self):
        return len(self.children)

    def __getitem__(self, i):
        return self.children[i]

    def __delitem__(self, i):
        pass  # memory-saving deletes of already parsed siblings: no-op

    def find(self, tag):
        for c in self.children:
            if c.tag == tag:
                return c
        return None

    def findall(self, tag):
        return [c for c in self.children if c.tag == tag]

    def clear(self):
        pass

    def getprevious(self):
        return None

    def getparent(self):
        return None

    def copy(self):
        e = El(self.tag, self.text, dict(self.attrib))
        e.children = [c.copy() for c in self.children]
        return e

    def __repr__(self):
        return "<El %s>" % self.tag


class _Attrib(dict):
    def __setitem__(self, k, v):
        if not isinstance(v, str) or not isinstance(k, str):
            raise TypeError("Argument must be bytes or unicode, got '%s'" % type(v).__name__)
        dict.__setitem__(self, k, v)


class _E:
    def __call__(self, tag, *children, **attrib):
        e = El(tag)
        for k, v in attrib.items():
            e.attrib[k] = v
        for c in children:
            if isinstance(c, El):
                e.append(c)
            elif isinstance(c, str):
                e.text = c if e.text is None else e.text + c
            elif isinstance(c, dict):
                for k, v in c.items():
                    e.attrib[k] = v
            else:
                raise TypeError("bad argument type: %s(%r)" % (type(c).__name__, c))
        return e

    def __getattr__(self, tag):
        return lambda *c, **a: self(tag, *c, **a)


E = _E()

_TOK = re.compile("(\x00XML\\d+\x00)|<\\?xml[^>]*\\?>|<(/?)([A-Za-z][A-Za-z0-9]*)((?:\\s+[A-Za-z:]+=\"[^\"]*\")*)\\s*(/?)>")
_ATTR = re.compile("([A-Za-z:]+)=\"([^\"]*)\"")


def parse_document(data: bytes):
    """bytes written by the repo -> root El (fresh copies; text "" reads back as None like lxml)"""
    try:
        text = data.decode("utf-8")
    except UnicodeDecodeError as e:
        raise XMLSyntaxError("not utf-8") from e
    pos = 0
    root = None
    stack = []
    seen_decl = False
    for m in _TOK.finditer(text):
        if text[pos:m.start()].strip() != "":
            raise XMLSyntaxError("unexpected text %r" % text[pos:m.start()][:20])
        pos = m.end()
        if m.group(1):
            el = _readback(tokens.lookup(m.group(1)).el)
            if stack:
                stack[-1].children.append(el)
            elif root is None:
                root = el
            else:
                raise XMLSyntaxError("extra content at the end of the document")
        elif m.group(3):
            if m.group(2):
                if not stack or stack[-1].tag != m.group(3):
                    raise XMLSyntaxError("mismatched closing tag %s" % m.group(3))
                e = stack.pop()
                if not stack:
                    root = e
            else:
                if root is not None and not stack:
                    raise XMLSyntaxError("extra content at the end of the document")
                e = El(m.group(3), attrib={k: v for k, v in _ATTR.findall(m.group(4)) if k != "xmlns"})
                if stack:
                    stack[-1].children.append(e)
                if m.group(5):
                    if not stack:
                        root = e
                else:
                    stack.append(e)
        else:
            if seen_decl or root is not None or stack:
                raise XMLSyntaxError("XML declaration allowed only at the start of the document")
            seen_decl = True
    if text[pos:].strip() != "":
        raise XMLSyntaxError("unexpected trailing text")
    if stack:
        raise XMLSyntaxError("premature end of data in tag %s" % stack[-1].tag)
    if root is None:
        raise XMLSyntaxError("document is empty")
    return root


def _readback(el):
    e = El(el.tag, None if el.text == "" else el.text, dict(el.attrib))
    e.children = [_readback(c) for c in el.children]
    return e


def events(root, which=("end",)):
    def walk(el):
        if "start" in which:
            yield "start", el
        for c in el.children:
            yield from walk(c)
        if "end" in which:
            yield "end", el
    return walk(root)


class _Tree:
    def __init__(self, root):
        self._root = root

    def getroot(self):
        return self._root


class FakeSchema:
    def __init__(self, fe, doc):
        self.fe = fe
        self.error_log = ""

    def validate(self, tree):
        from . import xsdmini
        errs = xsdmini.validate_root(tree.getroot(), self.fe.xsd)
        self.error_log = "\n".join(errs)
        return not errs

    __call__ = validate


class FakeEtree:
    XMLSyntaxError = XMLSyntaxError

    def __init__(self, world, xsd=None):
        self.world = world
        self.xsd = xsd

    @staticmethod
    def tostring(el, pretty_print=False, encoding=None, **kw):
        if not isinstance(el, El):
            raise TypeError("tostring of %r" % type(el))
        return tokens.XmlStr(el)

    @staticmethod
    def Element(tag, attrib=None, **extra):
        e = El(tag, attrib=attrib)
        for k, v in extra.items():
            e.attrib[k] = v
        return e

    @staticmethod
    def SubElement(parent, tag, attrib=None, **extra):
        e = FakeEtree.Element(tag, attrib, **extra)
        parent.append(e)
        return e

    def _data(self, f):
        if isinstance(f, str):
            f = self.world.open(f, "rb")
        node = f.node
        if node.content is None:
            raise pse.HarnessError("parsing a file with opaque content")
        return b"".join(node.content)

    def iterparse(self, f, events=("end",), **kw):
        root = parse_document(self._data(f))
        return globals()["events"](root, events)

    def parse(self, f, *a, **kw):
        if isinstance(f, str) and f.startswith("xsd/"):
            return _Tree(None)
        return _Tree(parse_document(self._data(f)))

    def XMLSchema(self, doc=None, **kw):
        return FakeSchema(self, doc)

    def fromstring(self, s):
        return parse_document(s if isinstance(s, bytes) else tokens.plain(s).encode())
