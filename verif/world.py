"""Environment models: symfs (file system), hashmodel (digests as uninterpreted functions), recorder (log),
and the injection of all models into the already imported /repo modules.

Every stub here is part of every claim; `STUBS` (bottom) is copied into the evidence files.
"""
import builtins
import posixpath
import types
import z3

from . import pse, tokens, fakexml, clock
from .pse import SymInt, SymBool, truth
from .tokens import Dig, BytesTok

MIB = 1024 * 1024


class Crash(pse.PseAbort):
    """the modelled process is killed at a chosen file-system operation (C15)"""


class ModelGap(pse.PseAbort):
    """the code under test used an API surface the model does not provide (never a verdict)"""


# --------------------------------------------------------------------------------------------- hash model
class HashModel:
    """digests = applications of fixed-arity uninterpreted functions H_alg_n over integer arguments, with
    args == args' <=> value == value' asserted for every pair of the same algorithm (injectivity = the
    collision-freeness assumption).  Applications whose arguments are all concrete get a distinct concrete
    value (asserted equal to the UF term), so comparisons among them need no solver call."""

    def __init__(self):
        self.funcs = {}
        self.sym_terms = []  # (alg, args, val)
        self.conc_terms = []
        self.cache = {}
        self.content_ids = {}
        self.bytes_ids = {}
        self.count = 0
        self.concrete_ids = True
        self._next = 10 ** 9

    def bytes_id(self, b):
        return self.bytes_ids.setdefault(bytes(b), 1000 + len(self.bytes_ids))

    def digest(self, alg, items):
        """items: list of ints / SymInts / z3 terms -> Dig(alg, H_alg_n(items))"""
        args = []
        for x in items:
            if isinstance(x, bool):
                raise pse.HarnessError("bool in digest args")
            if isinstance(x, int):
                args.append(z3.IntVal(x))
            elif isinstance(x, SymInt):
                args.append(z3.simplify(x.z))
            else:
                args.append(z3.simplify(x))
        self.count += 1
        key = (alg,) + tuple(a.get_id() for a in args)
        if key in self.cache:
            return Dig(alg, self.cache[key][1], self.cache[key][2])
        n = len(args)
        fkey = (alg, n)
        if fkey not in self.funcs:
            self.funcs[fkey] = (z3.Function("H_%s_%d" % (alg, n), *([z3.IntSort()] * (n + 1))) if n
                                else z3.Int("H_%s_0" % alg))
        term = self.funcs[fkey](*args) if n else self.funcs[fkey]
        e = pse.cur()
        concrete = all(z3.is_int_value(a) for a in args)
        if concrete and self.concrete_ids:
            self._next += 1000  # room between concrete values for symbolic ones
            val = z3.IntVal(self._next)
            e.add(term == val)
            others = self.sym_terms
            self.conc_terms.append((alg, args, val))
        else:
            val = term
            others = self.sym_terms + self.conc_terms
            self.sym_terms.append((alg, args, val))
        for (a2, args2, v2) in others:
            if a2 != alg:
                continue
            if len(args2) == n and n:
                same = z3.simplify(z3.And(*[x == y for x, y in zip(args, args2)]))
                if z3.is_true(same):
                    e.add(v2 == val)
                elif z3.is_false(same):
                    e.add(v2 != val)
                else:
                    e.add(same == (v2 == val))
            else:
                e.add(v2 != val)
        self.cache[key] = (args, val, len(self.cache))  # keep args alive: ast ids are only unique among live terms
        return Dig(alg, val, self.cache[key][2])


def _el_key(el):
    def txt(v):
        if v is None or v == "":
            return None
        if isinstance(v, Dig):
            return ("D", v.alg, v.val.get_id() if not z3.is_int_value(v.val) else v.val.as_long())
        if isinstance(v, pse.DecStr):
            return ("N", z3.simplify(v.sym.z).get_id())
        if isinstance(v, str) and tokens.has_key(v):
            t = tokens.tokens_in(v)
            if len(t) == 1 and hasattr(t[0], "t"):
                zz = lambda x: x if not isinstance(x, SymInt) else ("z", z3.simplify(x.z).get_id())
                return ("T", zz(t[0].t), zz(t[0].micro), zz(t[0].off), t[0].fmt)
            return ("K", tokens.plain(v))
        return v
    return (el.tag, txt(el.text), tuple(sorted((k, txt(v)) for k, v in el.attrib.items())), tuple(_el_key(c) for c in el.children))


class Chunk:
    """what a modelled binary read returns: the byte range [start,end) of one node version"""

    def __init__(self, node, cid, start, end):
        self.node, self.cid, self.start, self.end = node, cid, start, end

    def __bool__(self):
        return truth(self.end > self.start)

    def __len__(self):
        n = self.end - self.start
        if isinstance(n, SymInt):
            raise pse.Concretisation("len(chunk) of symbolic size")
        return n


class RecHasher:
    """stands in for hashlib.md5() / xxhash.xxh64() ...: records what it is fed"""

    def __init__(self, world, alg):
        self.world, self.alg, self.items = world, alg, []

    def update(self, data):
        if isinstance(data, Chunk):
            self.items.append(("chunk", data))
        elif isinstance(data, BytesTok):
            self.items.extend(data.items)
        elif isinstance(data, (bytes, bytearray, memoryview)):
            if len(data):
                self.items.append(("bytes", bytes(data)))
        else:
            raise ModelGap("hasher.update(%r)" % type(data))

    def copy(self):
        h = RecHasher(self.world, self.alg)
        h.items = list(self.items)
        return h

    def _flat(self):
        hm = self.world.hm
        items = self.items
        # merge adjacent literal bytes (update(a); update(b) == update(a+b))
        merged = []
        for it in items:
            if it[0] == "bytes" and merged and merged[-1][0] == "bytes":
                merged[-1] = ("bytes", merged[-1][1] + it[1])
            else:
                merged.append(it)
        chunks = [it[1] for it in merged if it[0] == "chunk"]
        if chunks and len(chunks) == len(merged):
            node, cid = chunks[0].node, chunks[0].cid
            ok = all(c.node is node and c.cid is cid for c in chunks)
            pos = 0
            if ok:
                for c in chunks:
                    if not truth(c.start == pos):
                        ok = False
                        break
                    pos = c.end
            if ok and truth(pos == node.size_of(cid)):
                self.world.full_reads += 1
                return [1, cid]  # the whole content, in order: a function of the content id only
        flat = []
        for it in merged:
            if it[0] == "bytes":
                flat += [2, hm.bytes_id(it[1])]
            elif it[0] == "dig":
                flat += [3, _ALG_IDS[it[1]], it[2]]
            else:
                c = it[1]
                flat += [4, c.cid, c.start, c.end]
        return flat

    def hexdigest(self):
        return self.world.hm.digest(self.alg, self._flat())

    def digest(self):
        return BytesTok([("dig", self.alg, self.hexdigest().val)])


_ALG_IDS = {"md5": 1, "sha1": 2, "sha512": 3, "xxh32": 4, "xxh64": 5, "xxh3_64": 6, "xxh3_128": 7}
FORMAT_ALG = {"md5": "md5", "sha1": "sha1", "c4": "sha512", "xxh32": "xxh32", "xxh64": "xxh64", "xxh3": "xxh3_64",
              "xxh128": "xxh3_128"}


# --------------------------------------------------------------------------------------------- file system
class Node:
    __slots__ = ("kind", "cid", "size", "mtime", "content", "ino", "target")
    _ino = [0]

    def __init__(self, kind, cid=None, size=None, mtime=0):
        self.kind, self.cid, self.size, self.mtime = kind, cid, size, mtime
        self.content = None  # written files: list of bytes pieces
        self.target = None  # kind "link": the absolute path the symbolic link points to
        Node._ino[0] += 1
        self.ino = Node._ino[0]

    def size_of(self, cid):
        return self.size

    def clone(self):
        n = Node(self.kind, self.cid, self.size, self.mtime)
        n.content = None if self.content is None else list(self.content)
        n.target = self.target
        return n


class ReadFile:
    def __init__(self, world, path, node, text=False):
        self.world, self.path, self.node, self.pos, self.text = world, path, node, 0, text
        self.cid = node.cid
        self.closed = False

    def __enter__(self):
        return self

    def __exit__(self, *a):
        self.close()
        return False

    def close(self):
        self.closed = True

    def read(self, size=-1):
        n = self.node.size
        avail = n - self.pos
        if self.node.content is not None and not isinstance(n, SymInt):
            pass
        if size is None or (not isinstance(size, SymInt) and size < 0) or (isinstance(size, SymInt) and truth(size < 0)):
            k = avail
        else:
            k = size if truth(size <= avail) else avail
        c = Chunk(self.node, self.cid, self.pos, self.pos + k)
        self.pos = self.pos + k
        self.world.reads += 1
        if self.world.reads > self.world.max_reads:
            raise pse.BoundExceeded("more than %d reads" % self.world.max_reads)
        if self.text:
            return self._text(c)
        return c

    def _data(self):
        if self.node.content is None:
            raise ModelGap("text/byte access to opaque file content %s" % self.path)
        return b"".join(self.node.content)

    def _text(self, c):
        return self._data().decode("utf-8")[c.start:c.end]

    def __iter__(self):
        return iter(self._data().decode("utf-8").splitlines(True))

    def readlines(self):
        return list(iter(self))


class WriteFile:
    """a file opened for writing. Like a real buffered file object, written data reaches the file only at flush() / close()
    (or when the 8 KiB buffer fills up); a killed process loses what is still buffered."""
    BUFFER = 8192

    def __init__(self, world, path, node, text=False, pos=None):
        self.world, self.path, self.node, self.text = world, path, node, text
        self.pos = pos  # None: append at the end; a number: overwrite in place from that offset (file opened without O_TRUNC)
        self.closed = False
        self.pending = []
        world.open_writers.append(self)

    def __enter__(self):
        return self

    def __exit__(self, *a):
        self.close()
        return False

    def _commit(self, upto=None):
        data = b"".join(self.pending)
        self.pending = []
        if upto is not None:
            data = data[:upto]
        if data and self.pos is not None:
            old = b"".join(self.node.content)
            new = old[:self.pos] + data + old[self.pos + len(data):]
            self.pos += len(data)
            self.node.content[:] = [new]
            self.node.size = len(new)
            self.node.cid = self.world.content_cid(self.node)
        elif data:
            self.node.content.append(data)
            self.node.size = self.node.size + len(data)
            self.node.cid = self.world.content_cid(self.node)

    def _crash_here(self):
        w = self.world
        return w.crash_at is not None and len(w.ops) == w.crash_at

    def write(self, b):
        if self.closed:
            raise ValueError("write to closed file")
        if isinstance(b, str):
            if not self.text:
                raise TypeError("a bytes-like object is required, not 'str'")
            b = tokens.plain(b).encode("utf-8")
        elif self.text:
            raise TypeError("write() argument must be str, not bytes")
        if self._crash_here():
            raise Crash(("write", self.path))
        self.pending.append(bytes(b))
        self.world.op("write", self.path, len(b))
        if sum(len(x) for x in self.pending) > self.BUFFER:
            self._commit()
        return len(b)

    def _sync(self, kind):
        if self._crash_here():
            if self.world.crash_torn:
                n = sum(len(x) for x in self.pending)
                if n > 1:
                    self._commit(n // 2)  # the kill hits in the middle of the write-out of the buffer
            raise Crash((kind, self.path))
        self._commit()
        self.world.op(kind, self.path)

    def flush(self):
        self._sync("flush")

    def close(self):
        if not self.closed:
            self._sync("close")
            self.closed = True
            if self in self.world.open_writers:
                self.world.open_writers.remove(self)

    def collect(self):
        """the file object is garbage collected without close(): CPython flushes it"""
        if not self.closed:
            self._commit()
            self.closed = True

    def fileno(self):
        raise ModelGap("fileno()")


class Zone:
    """time-zone model: standard / daylight offset (seconds east of UTC), isdst(t) per instant"""

    def __init__(self, std=0, dst=0, isdst=None, second=None, past=None):
        self.std, self.dst = std, dst
        self.past = past  # None, or {instant: offset}: instants at which the zone's rules were different from today's
        self._isdst = isdst  # None: never DST; else callable t -> SymBool|bool
        self._second = second  # None: no instant lies in a repeated hour; else callable t -> SymBool|bool

    def second_occurrence(self, t):
        """is t in the second occurrence of the wall-clock hour that is repeated when daylight saving ends?"""
        if self._second is None:
            return False
        return self._second(t)

    def isdst(self, t):
        if self._isdst is None:
            return False
        return self._isdst(t)

    def off(self, t):
        """the offset that was / is in force at instant t"""
        if self.past and not isinstance(t, SymInt) and t in self.past:
            return self.past[t]
        return self.off_by_todays_rules(t)

    def off_by_todays_rules(self, t):
        """what time.timezone / time.altzone / tm_isdst give: right unless the rules changed since t"""
        d = self.isdst(t)
        if isinstance(d, bool):
            return self.dst if d else self.std
        return SymInt(z3.If(d.z, pse._z(self.dst), pse._z(self.std)))


class World:
    ROOT_CWD = "/mnt"

    def __init__(self):
        self.nodes = {"/": Node("dir"), "/mnt": Node("dir")}
        self.ops = []
        self.hm = HashModel()
        self.log = []
        self._cid = 1000000
        self.reads = 0
        self.max_reads = 100000
        self.full_reads = 0
        self.now = 1579093200  # 2020-01-15T13:00:00Z
        self.now_micro = 0
        self.zone = Zone()
        self.listing = "reversed"  # "sorted" | "reversed" | "symbolic"
        self.cwd = self.ROOT_CWD
        self.escaped = []
        self.perm_counter = 0
        self.open_writers = []
        self.crash_at = None  # index into the operation log at which the process is killed
        self.crash_torn = False  # the write at that index is applied partially
        self.links = 0  # number of symbolic links ever created (0: path resolution is the identity)

    # ---- helpers for harnesses
    def fresh_cid(self):
        self._cid += 1
        return self._cid

    def content_cid(self, node):
        """written files: the content id is a function of the content (literal pieces + structure of the element trees), so that
        byte-identical files written in different worlds / orders have the same id and a partially written file a different one"""
        key = []
        text = b"".join(node.content).decode("utf-8", "replace")
        pos = 0
        for m in tokens.KEY_RE.finditer(text):
            if m.group(1) != "XML":
                continue
            key.append(text[pos:m.start()])
            key.append(_el_key(tokens.lookup(m.group(0)).el))
            pos = m.end()
        key.append(text[pos:])
        key = tuple(key)
        ids = self.hm.content_ids
        if key not in ids:
            ids[key] = 2000000 + len(ids)
        return ids[key]

    def op(self, *a):
        if self.crash_at is not None and len(self.ops) == self.crash_at and a[0] != "write":
            raise Crash(a)  # killed before this operation takes effect
        self.ops.append(a)

    def add_file(self, path, cid, size, mtime=1577836800):
        self.mkdirs(posixpath.dirname(path))
        n = Node("file", cid, size, mtime)
        self.nodes[path] = n
        return n

    def add_text_file(self, path, text, mtime=1577836800):
        n = self.add_file(path, 0, len(text.encode()), mtime)
        n.content = [text.encode()]
        n.cid = self.content_cid(n)
        return n

    def add_link(self, path, target, mtime=1577836800):
        """a symbolic link at `path` pointing to the absolute path `target`"""
        self.mkdirs(posixpath.dirname(path))
        n = Node("link", None, len(target), mtime)
        n.target = target
        self.nodes[path] = n
        self.links += 1
        return n

    def mkdirs(self, p, mtime=1577836800):
        if p not in self.nodes:
            self.mkdirs(posixpath.dirname(p), mtime)
            self.nodes[p] = Node("dir", mtime=mtime)

    def remove_tree(self, p):
        for q in [q for q in self.nodes if q == p or q.startswith(p + "/")]:
            del self.nodes[q]

    def move(self, src, dst):
        for q in [q for q in self.nodes if q == src or q.startswith(src + "/")]:
            self.nodes[dst + q[len(src):]] = self.nodes.pop(q)

    def snapshot(self):
        """identity snapshot for 'nothing changed' assertions: path -> (kind, cid, size, mtime, ncontent)"""
        return {p: (n.kind, n.cid, n.size, n.mtime, None if n.content is None else len(n.content), n.target)
                for p, n in self.nodes.items()}

    def clone(self):
        w = World.__new__(World)
        w.__dict__.update(self.__dict__)
        w.nodes = {p: n.clone() for p, n in self.nodes.items()}
        w.open_writers = []
        w.ops = []
        w.log = []
        return w

    # ---- os surface
    def _abs(self, p):
        if isinstance(p, bytes):
            raise ModelGap("bytes path")
        if not isinstance(p, str):
            raise ModelGap("path of type %r" % type(p))
        p = tokens.plain(p)
        if not p.startswith("/"):
            p = posixpath.join(self.cwd, p)
        return posixpath.normpath(p)

    def _norm(self, p, follow=True):
        """absolute, normalised, and with symbolic links resolved (the last component only if `follow`)"""
        p = self._abs(p)
        return self._resolve(p, follow) if self.links else p

    def _resolve(self, p, follow, depth=0):
        parts = [c for c in p.split("/") if c]
        cur = ""
        for i, c in enumerate(parts):
            cur = cur + "/" + c
            n = self.nodes.get(cur)
            if n is not None and n.kind == "link" and (follow or i < len(parts) - 1):
                if depth > 16:
                    raise OSError(40, "Too many levels of symbolic links", p)
                cur = self._resolve(n.target, True, depth + 1)
        return cur or "/"

    def lexists(self, p):
        return self._norm(p, follow=False) in self.nodes

    def readlink(self, p):
        n = self.nodes.get(self._norm(p, follow=False))
        if n is None or n.kind != "link":
            raise OSError(22, "Invalid argument", p)
        return n.target

    def _children(self, p):
        pre = "/" if p == "/" else p + "/"
        return [q[len(pre):] for q in self.nodes if q.startswith(pre) and "/" not in q[len(pre):] and q != p]

    def listdir(self, p="."):
        p = self._norm(p)
        if p not in self.nodes:
            raise FileNotFoundError(2, "No such file or directory", p)
        if self.nodes[p].kind != "dir":
            raise NotADirectoryError(20, "Not a directory", p)
        return self._order(self._children(p))

    def _order(self, names):
        names = sorted(names)
        if self.listing == "sorted" or len(names) < 2:
            return names
        if self.listing == "reversed":
            return names[::-1]
        if self.listing == "rotated":
            return names[1:] + names[:1]
        if self.listing == "interleaved":
            return names[1::2] + names[0::2]
        # symbolic permutation: selection by engine choices
        e = pse.cur()
        out = []
        rest = list(names)
        while len(rest) > 1:
            self.perm_counter += 1
            i = e.choose("perm%d" % self.perm_counter, list(range(len(rest))))
            out.append(rest.pop(i))
        out.append(rest[0])
        return out

    def exists(self, p):
        return self._norm(p) in self.nodes


    def isdir(self, p):
        p = self._norm(p)
        return p in self.nodes and self.nodes[p].kind == "dir"

    def isfile(self, p):
        p = self._norm(p)
        return p in self.nodes and self.nodes[p].kind == "file"

    def islink(self, p):
        n = self.nodes.get(self._norm(p, follow=False)) if self.links else None
        return n is not None and n.kind == "link"

    def _node(self, p):
        p = self._norm(p)
        if p not in self.nodes:
            raise FileNotFoundError(2, "No such file or directory", p)
        return self.nodes[p]

    def getsize(self, p):
        n = self._node(p)
        return 4096 if n.kind == "dir" else n.size

    def getmtime(self, p):
        return self._node(p).mtime

    def stat(self, p):
        n = self._node(p)
        return types.SimpleNamespace(st_size=4096 if n.kind == "dir" else n.size, st_mtime=n.mtime, st_mtime_ns=n.mtime * 1000000000,
                                     st_atime=n.mtime, st_ctime=n.mtime, st_atime_ns=n.mtime * 1000000000, st_ctime_ns=n.mtime * 1000000000,
                                     st_mode=0o40755 if n.kind == "dir" else 0o100644, st_ino=n.ino)

    def mkdir(self, p, mode=0o777):
        p = self._norm(p)
        self.op("mkdir", p)
        if p in self.nodes:
            raise FileExistsError(17, "File exists", p)
        if posixpath.dirname(p) not in self.nodes:
            raise FileNotFoundError(2, "No such file or directory", p)
        self.nodes[p] = Node("dir", mtime=self.now)

    def makedirs(self, p, mode=0o777, exist_ok=False):
        p = self._norm(p)
        if p in self.nodes:
            if not exist_ok:
                raise FileExistsError(17, "File exists", p)
            return
        parent = posixpath.dirname(p)
        if parent not in self.nodes:
            self.makedirs(parent, mode, True)
        self.mkdir(p)

    def replace(self, src, dst):
        src, dst = self._norm(src, follow=False), self._norm(dst, follow=False)
        self.op("replace", src, dst)
        if src not in self.nodes:
            raise FileNotFoundError(2, "No such file or directory", src)
        if self.nodes[src].kind == "dir":
            self.remove_tree(dst) if dst in self.nodes else None
            self.move(src, dst)
        else:
            self.nodes[dst] = self.nodes.pop(src)

    rename = replace

    def remove(self, p):
        p = self._norm(p, follow=False)
        self.op("remove", p)
        if p not in self.nodes:
            raise FileNotFoundError(2, "No such file or directory", p)
        del self.nodes[p]

    unlink = remove

    def rmdir(self, p):
        p = self._norm(p, follow=False)
        self.op("rmdir", p)
        if self._children(p):
            raise OSError(39, "Directory not empty", p)
        del self.nodes[p]

    def utime(self, p, times=None, **kw):
        p = self._norm(p)
        self.op("utime", p)
        if times is not None:
            self._node(p).mtime = times[1]

    def chmod(self, p, mode):
        self.op("chmod", self._norm(p))

    def truncate(self, p, length):
        p = self._norm(p)
        self.op("truncate", p)
        n = self._node(p)
        n.size = length
        n.cid = self.fresh_cid()

    def fsync(self, fd):
        self.op("fsync")

    def walk(self, top, topdown=True, onerror=None, followlinks=False):
        top = tokens.plain(top)
        try:
            names = self.listdir(top)
        except OSError:
            return
        dirs = [n for n in names if self.isdir(posixpath.join(top, n))]
        files = [n for n in names if not self.isdir(posixpath.join(top, n))]
        if topdown:
            yield top, dirs, files
        for d in list(dirs):
            if followlinks or not self.islink(posixpath.join(top, d)):
                yield from self.walk(posixpath.join(top, d), topdown, onerror, followlinks)
        if not topdown:
            yield top, dirs, files

    def scandir(self, p="."):
        w, base = self, tokens.plain(p)

        class DirEntry:
            def __init__(self, name):
                self.name = name
                self.path = posixpath.join(base, name)

            def is_dir(self, follow_symlinks=True):
                return w.isdir(self.path) and (follow_symlinks or not w.islink(self.path))

            def is_file(self, follow_symlinks=True):
                return w.isfile(self.path) and (follow_symlinks or not w.islink(self.path))

            def is_symlink(self):
                return w.islink(self.path)

            def stat(self, follow_symlinks=True):
                return w.stat(self.path)

            def inode(self):
                raise ModelGap("DirEntry.inode")

            def __fspath__(self):
                return self.path

            def __repr__(self):
                return "<DirEntry %r>" % self.name

        class It(list):
            def __enter__(self):
                return self

            def __exit__(self, *a):
                return False

            def close(self):
                pass

        return It(DirEntry(n) for n in self.listdir(base))

    def open(self, path, mode="r", *a, **kw):
        p = self._norm(path)
        m = mode.replace("t", "")
        text = "b" not in m
        m = m.replace("b", "")
        if m == "r":
            if p not in self.nodes:
                raise FileNotFoundError(2, "No such file or directory", p)
            if self.nodes[p].kind == "dir":
                raise IsADirectoryError(21, "Is a directory", p)
            return ReadFile(self, p, self.nodes[p], text)
        if m in ("w", "x", "a", "w+", "r+"):
            if posixpath.dirname(p) not in self.nodes:
                raise FileNotFoundError(2, "No such file or directory", p)
            if p in self.nodes and self.nodes[p].kind == "dir":
                raise IsADirectoryError(21, "Is a directory", p)
            if m == "x" and p in self.nodes:
                raise FileExistsError(17, "File exists", p)
            if m == "a" and p in self.nodes:
                n = self.nodes[p]
                if n.content is None:
                    raise ModelGap("append to opaque file")
                self.op("open_a", p)
                return WriteFile(self, p, n, text)
            if m == "r+" and p in self.nodes:
                n = self.nodes[p]
                if n.content is None:
                    raise ModelGap("in-place write to opaque file")
                self.op("open_rw", p)
                return WriteFile(self, p, n, text, pos=0)
            self.op("open_w", p)
            n = Node("file", 0, 0, self.now)
            n.content = []
            self.nodes[p] = n
            return WriteFile(self, p, n, text)
        raise ModelGap("open mode %r" % mode)


class FakeOSPath:
    def __init__(self, w):
        for k in ("join", "dirname", "basename", "normpath", "relpath", "isabs", "splitext", "split", "commonpath",
                  "commonprefix", "sep", "normcase", "splitdrive", "expanduser"):
            setattr(self, k, getattr(posixpath, k))
        self._w = w
        self.exists, self.lexists, self.isdir, self.isfile, self.islink = w.exists, w.lexists, w.isdir, w.isfile, w.islink
        self.samefile = lambda a, b_: w._norm(a) == w._norm(b_)
        self.getsize, self.getmtime = w.getsize, w.getmtime

    def abspath(self, p):
        return self._w._abs(p)  # (lexical: symbolic links are not resolved)

    def realpath(self, p, **kw):
        return self._w._norm(p)

    def relpath(self, p, start=None):
        return posixpath.relpath(self._w._abs(p), self._w._abs(start if start is not None else "."))

    def __getattr__(self, k):
        raise ModelGap("os.path.%s" % k)


class FakeGlob:
    """glob / iglob / escape on the modelled file system (fnmatch semantics per path component)"""

    def __init__(self, w):
        self._w = w

    @staticmethod
    def escape(p):
        import glob as _g
        return _g.escape(p)

    @staticmethod
    def has_magic(p):
        import glob as _g
        return _g.has_magic(p)

    def glob(self, pattern, *, root_dir=None, recursive=False, **kw):
        import fnmatch
        pat = self._w._norm(pattern if root_dir is None else posixpath.join(root_dir, pattern))
        parts = pat.split("/")[1:]
        cur = ["/"]
        for part in parts:
            nxt = []
            for d in cur:
                if not self._w.isdir(d):
                    continue
                for n in sorted(self._w._children(d)):
                    if fnmatch.fnmatchcase(n, part) and not (n.startswith(".") and not part.startswith(".")):
                        nxt.append(posixpath.join(d, n))
            cur = nxt
        return self._w._order([c for c in cur]) if cur else []

    def iglob(self, pattern, **kw):
        return iter(self.glob(pattern, **kw))


class FakeOS:
    O_RDONLY, O_WRONLY, O_RDWR, O_CREAT, O_EXCL, O_TRUNC, O_APPEND = 0, 1, 2, 64, 128, 512, 1024
    name = "posix"
    sep = "/"
    linesep = "\n"
    curdir = "."
    pardir = ".."
    extsep = "."
    altsep = None
    environ = {}
    error = OSError

    def __init__(self, w):
        self._w = w
        self.path = FakeOSPath(w)
        for k in ("listdir", "walk", "mkdir", "makedirs", "replace", "rename", "remove", "unlink", "rmdir", "utime",
                  "chmod", "truncate", "stat", "scandir", "fsync"):
            setattr(self, k, getattr(w, k))
        self.lstat = w.stat
        self.readlink = w.readlink

    def symlink(self, src, dst, *a, **kw):
        w = self._w
        w.op("symlink", w._abs(dst))
        w.add_link(w._abs(dst), posixpath.normpath(posixpath.join(posixpath.dirname(w._abs(dst)), tokens.plain(src))), w.now)

    def getcwd(self):
        return self._w.cwd

    def open(self, path, flags, mode=0o777, **kw):
        w = self._w
        p = w._norm(path)
        if flags & (self.O_WRONLY | self.O_RDWR | self.O_CREAT | self.O_TRUNC | self.O_APPEND):
            if flags & self.O_EXCL and p in w.nodes:
                raise FileExistsError(17, "File exists", p)
            if not (flags & self.O_CREAT) and p not in w.nodes:
                raise FileNotFoundError(2, "No such file or directory", p)
            if p in w.nodes and not flags & self.O_TRUNC:
                f = w.open(p, "ab" if flags & self.O_APPEND else "r+b")  # no O_TRUNC: the old bytes stay, writes start at offset 0
            else:
                f = w.open(p, "wb")
        else:
            f = w.open(p, "rb")
        w._fds = getattr(w, "_fds", {})
        fd = 100 + len(w._fds)
        w._fds[fd] = f
        return fd

    def close(self, fd):
        self._w._fds.pop(fd).close()

    def write(self, fd, data):
        return self._w._fds[fd].write(data)

    def fdopen(self, fd, mode="r", *a, **kw):
        f = self._w._fds[fd]
        if hasattr(f, "text"):
            f.text = "b" not in mode
        return f

    def getpid(self):
        return 4242

    def fspath(self, p):
        return p

    def __getattr__(self, k):
        raise ModelGap("os.%s" % k)


class FakeTempfile:
    """tempfile on the modelled file system: every temporary file is an ordinary create + remove in the operation log"""
    _verif_stand_in = "tempfile-module"

    def __init__(self, w):
        self._w, self._n = w, 0
        self.tempdir = None

    def gettempdir(self):
        if "/tmp" not in self._w.nodes:
            self._w.mkdirs("/tmp")
        return "/tmp"

    def _name(self, suffix, prefix, dir):
        self._n += 1
        return posixpath.join(tokens.plain(dir) if dir is not None else self.gettempdir(), "%s%06d%s" % (prefix or "tmp", self._n, suffix or ""))

    def mkstemp(self, suffix=None, prefix=None, dir=None, text=False):
        p = self._name(suffix, prefix, dir)
        return FakeOS(self._w).open(p, FakeOS.O_WRONLY | FakeOS.O_CREAT | FakeOS.O_EXCL), p

    def mkdtemp(self, suffix=None, prefix=None, dir=None):
        p = self._name(suffix, prefix, dir)
        self._w.mkdir(p)
        return p

    def NamedTemporaryFile(self, mode="w+b", buffering=-1, encoding=None, newline=None, suffix=None, prefix=None, dir=None, delete=True, **kw):
        w, p = self._w, self._name(suffix, prefix, dir)
        f = w.open(p, "wb" if "b" in mode else "w")

        class Tmp:
            name = p

            def __getattr__(s, k):
                return getattr(f, k)

            def close(s):
                f.close()
                if delete and w.exists(p):
                    w.remove(p)

            def __enter__(s):
                return s

            def __exit__(s, *a):
                s.close()
                return False

        return Tmp()

    TemporaryFile = NamedTemporaryFile

    def __getattr__(self, k):
        raise ModelGap("tempfile.%s" % k)


# --------------------------------------------------------------------------------------------- injection
def _modules():
    import ascmhl.commands as C
    import ascmhl.history as Hi
    import ascmhl.hashlist as HL
    import ascmhl.hashlist_xml_parser as XP
    import ascmhl.chain_xml_parser as CP
    import ascmhl.hasher as HA
    import ascmhl.traverse as TR
    import ascmhl.generator as G
    import ascmhl.ignore as IG
    import ascmhl.utils as U
    import ascmhl.logger as LG
    return C, Hi, HL, XP, CP, HA, TR, G, IG, U, LG


class Installed:
    def __init__(self):
        self.saved = []

    def set(self, mod, name, val):
        d = mod.__dict__ if isinstance(mod, types.ModuleType) else None
        if d is not None:
            self.saved.append((mod, name, d.get(name), name in d))
        else:
            self.saved.append((mod, name, mod.__dict__.get(name), name in mod.__dict__))
        setattr(mod, name, val)

    def restore(self):
        for mod, name, old, had in reversed(self.saved):
            if had:
                setattr(mod, name, old)
            else:
                try:
                    delattr(mod, name)
                except AttributeError:
                    pass
        self.saved = []


def install(world, summarise_c4=True, xsd=None):
    """replace the C-library / OS names inside the repo modules by the models; returns an object with restore()"""
    C, Hi, HL, XP, CP, HA, TR, G, IG, U, LG = _modules()
    ins = Installed()
    fos = FakeOS(world)
    fglob = FakeGlob(world)
    for m in (C, Hi, HL, XP, CP, HA, TR, IG, U, G):
        if "os" in m.__dict__:
            ins.set(m, "os", fos)
        if "glob" in m.__dict__:
            ins.set(m, "glob", fglob)
        for fn in ("glob", "iglob"):
            pass
    for m in (C, Hi, HL, XP, CP, HA, IG, U, G, TR):
        ins.set(m, "open", world.open)
    ins.set(TR, "join", posixpath.join)
    ins.set(TR, "isdir", world.isdir)
    # xml
    fe = fakexml.FakeEtree(world, xsd)
    for m in (XP, CP):
        ins.set(m, "etree", fe)
        ins.set(m, "E", fakexml.E)
    ins.set(C, "etree", fe)
    # time: every ascmhl module that has `datetime` (module or class) or `time` gets the model
    import datetime as _real_dt
    import time as _real_time
    fdt = clock.FakeDatetimeModule(world)
    ftime = clock.FakeTimeModule(world)
    # (a second world installed on top of the first - C13 explores two on one path - finds the first world's stand-ins there)
    kind = lambda x: getattr(x, "_verif_stand_in", None)
    for m in (C, Hi, HL, XP, CP, HA, TR, G, IG, U):
        d = m.__dict__.get("datetime")
        if d is _real_dt or kind(d) == "datetime-module":
            ins.set(m, "datetime", fdt)
        elif d is _real_dt.datetime or kind(d) == "datetime-class":
            ins.set(m, "datetime", fdt.datetime)
        if m.__dict__.get("timedelta") is _real_dt.timedelta:
            ins.set(m, "timedelta", fdt.timedelta)
        if m.__dict__.get("timezone") is _real_dt.timezone:
            ins.set(m, "timezone", fdt.timezone)
        if m.__dict__.get("time") is _real_time or kind(m.__dict__.get("time")) == "time-module":
            ins.set(m, "time", ftime)
        if getattr(m.__dict__.get("tempfile"), "__name__", "") == "tempfile" or kind(m.__dict__.get("tempfile")) == "tempfile-module":
            ins.set(m, "tempfile", FakeTempfile(world))
        if getattr(m.__dict__.get("tz"), "__name__", "") == "dateutil.tz" or kind(m.__dict__.get("tz")) == "tz-module":
            ins.set(m, "tz", clock.FakeTzModule(world))
    ins.set(XP, "dateutil", clock.FakeDateutil(world))

    def model_int(x, *a):
        if isinstance(x, pse.DecStr):
            return x.sym
        if isinstance(x, SymInt):
            return x
        if isinstance(x, str) and tokens.has_key(x):
            raise pse.Concretisation("int() of a token string")
        return builtins.int(x, *a)

    ins.set(XP, "int", model_int)
    # digests
    mk = lambda alg: (lambda data=None: _mk_hasher(world, alg, data))
    hl = types.SimpleNamespace(md5=mk("md5"), sha1=mk("sha1"), sha512=mk("sha512"))
    xx = types.SimpleNamespace(xxh32=mk("xxh32"), xxh64=mk("xxh64"), xxh3_64=mk("xxh3_64"), xxh3_128=mk("xxh3_128"))
    ins.set(HA, "hashlib", hl)
    ins.set(HA, "xxhash", xx)

    def unhexlify(d):
        if isinstance(d, Dig):
            return BytesTok([("dig", d.alg, d.val)])
        raise ModelGap("unhexlify(%r)" % type(d))

    ins.set(HA, "binascii", types.SimpleNamespace(unhexlify=unhexlify, a2b_hex=unhexlify))
    if summarise_c4:
        ins.set(HA.C4, "string_digest", lambda self: self.hasher.hexdigest())
        ins.set(HA.C4, "bytes_from_string_digest", classmethod(lambda cls, d: unhexlify(d)))
    # log recorder: the logger's own functions run (level checks, formatting); what they hand to click.echo is recorded
    import sys as _sys
    import click as _click

    class LogClick:
        @staticmethod
        def echo(message=None, file=None, nl=True, err=False, color=None):
            world.log.append(("err" if (err or file is _sys.stderr) else "out", "" if message is None else message))

        @staticmethod
        def secho(message=None, file=None, nl=True, err=False, color=None, **styles):
            LogClick.echo(message, file=file, err=err)

        @staticmethod
        def style(text, **styles):
            return text

        def __getattr__(self, k):
            return getattr(_click, k)

    ins.set(LG, "click", LogClick())
    ins.set(LG, "verbose_logging", False)
    return ins


def _mk_hasher(world, alg, data):
    h = RecHasher(world, alg)
    if data is not None:
        h.update(data)
    return h


STUBS = [
    "os / os.path / open: symfs (dict of nodes; listdir, walk, mkdir, makedirs, replace, rename, remove, rmdir, utime, "
    "chmod, truncate, stat, exists, isdir, isfile, islink=False, getsize, getmtime; pure path functions = real posixpath)",
    "hashlib.md5/sha1/sha512, xxhash.xxh32/xxh64/xxh3_64/xxh3_128: recording hashers; digest = uninterpreted function "
    "H_alg_n over (content id | literal-bytes id | decoded digest value) with pairwise args==args' <=> value==value'",
    "binascii.unhexlify: digest token -> bytes token",
    "lxml etree.tostring / iterparse / E builder: infoset model (no escaping, no encodings)",
    "datetime / time / dateutil.parser.parse: clock + zone model",
    "click.echo / click.style as used by ascmhl.logger: recorder (the logger's own level checks and formatting run for real)",
]
