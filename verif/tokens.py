"""Token strings: `str` subclasses whose concrete text is a NUL-delimited registry key.

They pass unharmed through code that expects `str` (f-strings, textwrap.indent, encode, file.write) and
are recovered from the key when the modelled file is read back.  The registry is reset for every path.
"""
import re
import z3
from . import pse

_REG = {}
_SERIAL = [0]
KEY_RE = re.compile("\x00([A-Z]+)(\\d+)\x00")


def reset():
    _REG.clear()
    _SERIAL[0] = 0


def new_key(kind):
    _SERIAL[0] += 1
    return "\x00%s%d\x00" % (kind, _SERIAL[0])


def register(tok):
    _REG[str.__str__(tok)] = tok
    return tok


def lookup(key):
    return _REG[key]


def has_key(s):
    return "\x00" in str.__str__(s) if isinstance(s, str) else False


def plain(s):
    """the raw text of a str or token (never triggers token methods)"""
    return str.__str__(s)


def subst(s, fn):
    """replace every key inside plain string s by fn(token)"""
    return KEY_RE.sub(lambda m: fn(_REG[m.group(0)]), plain(s))


def tokens_in(s):
    return [_REG[m.group(0)] for m in KEY_RE.finditer(plain(s))]


class Dig(str):
    """a digest string: value = application of an uninterpreted function (z3 Int term)"""

    symbolic_order = False

    def __new__(cls, alg, val, order=None):
        o = str.__new__(cls, new_key("DIG"))
        o.alg = alg
        o.val = val
        # non-symbolic order mode: a fixed total order on digest *terms* (index of first creation), identical for
        # every Dig object of the same term, so the code under test and the reference evaluator sort alike
        o.serial = _SERIAL[0] if order is None else order
        register(o)
        return o

    def __eq__(self, o):
        if not isinstance(o, Dig):
            if isinstance(o, str) or o is None:
                return False
            return NotImplemented
        if o.alg != self.alg:
            return False
        if o is self:
            return True
        return pse.SymBool(self.val == o.val)

    def __ne__(self, o):
        r = self.__eq__(o)
        if r is NotImplemented:
            return r
        return (not r) if isinstance(r, bool) else ~r

    def __lt__(self, o):
        if not isinstance(o, Dig) or o.alg != self.alg:
            raise pse.Concretisation("ordering digests of different kinds")
        import z3
        if not Dig.symbolic_order and z3.is_int_value(self.val) and z3.is_int_value(o.val):
            return self.val.as_long() < o.val.as_long()  # concrete values: order of first creation
        return pse.SymBool(self.val < o.val)

    def __gt__(self, o):
        return o.__lt__(self)

    def __le__(self, o):
        r = o.__lt__(self)
        return (not r) if isinstance(r, bool) else ~r

    def __ge__(self, o):
        r = self.__lt__(o)
        return (not r) if isinstance(r, bool) else ~r

    def __hash__(self):
        raise pse.Concretisation("hash(Dig)")

    def __bool__(self):
        return True  # a digest string is never empty

    def __len__(self):
        raise pse.Concretisation("len(Dig)")

    def __getitem__(self, i):
        raise pse.Concretisation("Dig[i]")

    def __iter__(self):
        raise pse.Concretisation("iter(Dig)")

    def __contains__(self, x):
        raise pse.Concretisation("x in Dig")

    def _no(self, *a, **k):
        raise pse.Concretisation("string method on Dig")

    lower = upper = split = strip = startswith = endswith = ljust = rjust = replace = find = index = _no

    def __repr__(self):
        return "<Dig %s #%d>" % (self.alg, self.serial)


class BytesTok:
    """bytes made of literal pieces and decoded digests"""

    def __init__(self, items):
        self.items = list(items)  # ("bytes", b) | ("dig", alg, val)

    def __radd__(self, other):
        if isinstance(other, (bytes, bytearray)):
            return BytesTok([("bytes", bytes(other))] + self.items)
        return NotImplemented

    def __add__(self, other):
        if isinstance(other, (bytes, bytearray)):
            return BytesTok(self.items + [("bytes", bytes(other))])
        if isinstance(other, BytesTok):
            return BytesTok(self.items + other.items)
        return NotImplemented


class XmlStr(str):
    """etree.tostring(element): key + newline (pretty_print always ends with a newline)"""

    def __new__(cls, el):
        o = str.__new__(cls, new_key("XML") + "\n")
        o.el = el
        _REG[plain(o).rstrip("\n")] = o
        return o


class Opaque(str):
    """an opaque non-empty text (creator info fields, ignore patterns) compared by identity id"""

    def __new__(cls, ident):
        o = str.__new__(cls, new_key("TXT"))
        o.ident = ident
        register(o)
        return o

    def __eq__(self, o):
        if isinstance(o, Opaque):
            r = self.ident == o.ident
            return r
        return False

    def __ne__(self, o):
        r = self.__eq__(o)
        return (not r) if isinstance(r, bool) else ~r

    def __hash__(self):
        raise pse.Concretisation("hash(Opaque)")
