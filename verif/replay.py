"""Replay of solver counterexamples (or sampled passing paths) on the real program: real CLI, real libraries,
a scratch directory under the system temp dir (removed afterwards), an oracle independent of the models."""
import json
import os
import sys
import traceback

from . import pse
from .backend import RealBackend, ConcSym, ReplayInfeasible


def run_vector(h, inputs, all_seeds=True):
    if h.mode == "unit":
        sym = ConcSym(inputs)
        try:
            h.fn(sym)
        except pse.Violation as v:
            return {"violation": {"assert": v.assert_id, "detail": str(v.detail)}}
        except ReplayInfeasible:
            return {"infeasible": True}
        return {"violation": None}
    from . import backend as _be
    opts = dict(h.real_opts)
    seeds = opts.pop("content_seeds", 1)
    if not all_seeds:
        seeds = min(seeds, 2)
    last = {"violation": None}
    for seed in range(seeds):
        _be.CONTENT_SEED[0] = seed
        last = _run_once(h, inputs, opts)
        if last.get("violation") or last.get("error") or last.get("infeasible"):
            if last.get("violation") and seed:
                last["content_seed"] = seed
            break
    _be.CONTENT_SEED[0] = 0
    return last


def _run_once(h, inputs, opts):
    b = RealBackend(**opts)
    del pse.SOFT_REAL[:]
    try:
        sym = ConcSym(inputs)
        try:
            h.fn(b, sym)
            if pse.SOFT_REAL:
                return {"violation": {"assert": pse.SOFT_REAL[0][0], "detail": pse.SOFT_REAL[0][1]},
                        "all_violations": [{"assert": a, "detail": d} for a, d in pse.SOFT_REAL]}
        except pse.Violation as v:
            return {"violation": {"assert": v.assert_id, "detail": str(v.detail)},
                    "all_violations": [{"assert": a, "detail": d} for a, d in pse.SOFT_REAL] + [{"assert": v.assert_id, "detail": str(v.detail)}]}
        except ReplayInfeasible:
            return {"infeasible": True}
        except pse.PseAbort as ex:
            return {"error": "%s: %s" % (type(ex).__name__, ex)}
        return {"violation": None}
    finally:
        b.close()


def main(argv=None):
    import argparse
    from .runner import load_harnesses
    ap = argparse.ArgumentParser()
    ap.add_argument("--batch")
    ap.add_argument("--file")
    a = ap.parse_args(argv)
    if a.batch:
        req = json.load(open(a.batch))
        h = [x for x in load_harnesses(req["property"], req["tier"]) if x.name == req["harness"]][0]
        out = []
        for vec in req["vectors"]:
            try:
                out.append(run_vector(h, vec, req.get("mode") != "conformance"))
            except Exception as ex:
                out.append({"error": "".join(traceback.format_exception(ex))[-3000:]})
        print("REPLAY-RESULT " + json.dumps(out, default=str))
        return 0
    req = json.load(open(a.file))
    h = [x for x in load_harnesses(req["property"], req.get("tier", "quick")) if x.name == req["harness"]][0]
    r = run_vector(h, req["inputs"])
    print(json.dumps(r, indent=1, default=str))
    if r.get("violation"):
        print("REPRODUCED property=%s assert=%s" % (req["property"], r["violation"]["assert"]))
        return 1
    print("not reproduced")
    return 0


if __name__ == "__main__":
    sys.exit(main())
