"""Symbolic characters / digit strings for the C4 codec harness (C01): the real encoder indexes its alphabet with a
symbolic digit and builds the text by concatenation; the real decoder looks characters up again."""
import z3
from . import pse
from .pse import SymInt, SymBool, truth


PUA = 0xE000
_CHARS = []  # per path: k -> SymInt digit value of the symbolic character chr(PUA + k)


def reset():
    del _CHARS[:]


def new_char(idx):
    """a symbolic character is a real one-character `str` from the Unicode private-use area, so that every string
    operation of the code under test (concatenation, join, rjust, slicing, indexing, len) works natively on it"""
    _CHARS.append(idx)
    if len(_CHARS) > 6000:
        raise pse.BoundExceeded("more than 6000 symbolic characters")
    return chr(PUA + len(_CHARS) - 1)


def char_value(ch):
    """SymInt digit of a symbolic character, or None for an ordinary character"""
    if isinstance(ch, str) and len(ch) == 1 and PUA <= ord(ch) < PUA + len(_CHARS):
        return _CHARS[ord(ch) - PUA]
    return None


def has_symbolic(s):
    return any(PUA <= ord(c) < PUA + len(_CHARS) for c in s)


class SymCharset:
    """stands in for the alphabet constant: indexing with a symbolic digit yields a symbolic character"""

    def __init__(self, s):
        self.s = s

    def __getitem__(self, i):
        if isinstance(i, SymInt):
            if not truth(SymBool(z3.And(i.z >= 0, i.z < len(self.s)))):
                raise IndexError("string index out of range")
            return new_char(i)
        return self.s[i]

    def index(self, ch, *a):
        v = char_value(ch)
        if v is not None:
            return v
        return self.s.index(ch, *a)

    def find(self, ch, *a):
        v = char_value(ch)
        if v is not None:
            return v
        return self.s.find(ch, *a)

    def __len__(self):
        return len(self.s)

    def __iter__(self):
        return iter(self.s)

    def __contains__(self, ch):
        return char_value(ch) is not None or ch in self.s

    def __eq__(self, o):
        return self.s == (o.s if isinstance(o, SymCharset) else o)

    def __str__(self):
        return self.s

    __hash__ = None


class HexTok(str):
    """hexdigest() of the fake sha512: carries the 512-bit value"""

    def __new__(cls, v):
        o = str.__new__(cls, "\x00HEX\x00")
        o.v = v
        return o


class BytesVal:
    def __init__(self, v, n, byteorder):
        self.v, self.n, self.byteorder = v, n, byteorder


def _to_bytes(self, length=1, byteorder="big", *, signed=False):
    if not truth(SymBool(z3.And(self.z >= 0, self.z < 256 ** length))):
        raise OverflowError("int too big to convert")
    return BytesVal(self, length, byteorder)


SymInt.to_bytes = _to_bytes
