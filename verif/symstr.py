"""Symbolic characters / digit strings for the C4 codec harness (C01): the real encoder indexes its alphabet with a
symbolic digit and builds the text by concatenation; the real decoder looks characters up again."""
import z3
from . import pse
from .pse import SymInt, SymBool, truth


class SymChar:
    def __init__(self, idx, charset):
        self.idx, self.charset = idx, charset  # SymInt digit value, invariant 0 <= idx < len(charset)

    def __add__(self, o):
        return SymSeq([self]) + o

    def __radd__(self, o):
        return SymSeq(list(o) + [self])

    def __eq__(self, o):
        if isinstance(o, SymChar):
            return self.idx == o.idx
        if isinstance(o, str) and len(o) == 1:
            return self.idx == self.charset.s.index(o) if o in self.charset.s else False
        return False

    __hash__ = None


class SymSeq:
    def __init__(self, items):
        self.items = list(items)

    def __add__(self, o):
        if isinstance(o, str):
            return SymSeq(self.items + list(o))
        if isinstance(o, SymChar):
            return SymSeq(self.items + [o])
        return SymSeq(self.items + o.items)

    def __radd__(self, o):
        return SymSeq(list(o) + self.items)

    def rjust(self, n, fill=" "):
        return SymSeq([fill] * max(0, n - len(self.items)) + self.items)

    def ljust(self, n, fill=" "):
        return SymSeq(self.items + [fill] * max(0, n - len(self.items)))

    def zfill(self, n):
        return self.rjust(n, "0")

    def __getitem__(self, i):
        if isinstance(i, slice):
            return SymSeq(self.items[i])
        return self.items[i]

    def __len__(self):
        return len(self.items)

    def __iter__(self):
        return iter(self.items)


class SymCharset:
    def __init__(self, s):
        self.s = s

    def __getitem__(self, i):
        if isinstance(i, SymInt):
            if not truth(SymBool(z3.And(i.z >= 0, i.z < len(self.s)))):
                raise IndexError("string index out of range")
            return SymChar(i, self)
        return self.s[i]

    def index(self, ch):
        if isinstance(ch, SymChar):
            return ch.idx
        return self.s.index(ch)

    def find(self, ch):
        if isinstance(ch, SymChar):
            return ch.idx
        return self.s.find(ch)

    def __len__(self):
        return len(self.s)

    def __contains__(self, ch):
        return isinstance(ch, SymChar) or ch in self.s

    def __eq__(self, o):
        return self.s == (o.s if isinstance(o, SymCharset) else o)

    __hash__ = None


class HexTok(str):
    """hexdigest() of the fake sha512: carries the 512-bit value"""

    def __new__(cls, v):
        o = str.__new__(cls, "\x00HEX\x00")
        o.v = v
        return o


class BytesVal:
    def __init__(self, v, n, byteorder):
        self.v, self.n, self.byteorder = v, n, byteorder


def _to_bytes(self, length=1, byteorder="big", *, signed=False):
    if not truth(SymBool(z3.And(self.z >= 0, self.z < 256 ** length))):
        raise OverflowError("int too big to convert")
    return BytesVal(self, length, byteorder)


SymInt.to_bytes = _to_bytes
