"""xsdmini: a small XML-Schema validator generated at run time from /repo/xsd/ASCMHL.xsd and ASCMHLDirectory.xsd.

It compiles exactly the subset those two schemas use (sequence / choice with min/maxOccurs, nested sequences,
simpleContent extensions with attributes, inline complex types, enumerations, patterns, integer, dateTime, string,
anyType) and validates the element trees of the infoset model (`fakexml.El`) *or* xml.etree elements.
Attribute values / texts may be symbolic tokens: a DecStr always denotes an integer; an IsoStr is a valid
xs:dateTime iff its offset is a whole number of minutes within +-14:00 (decided by the solver).
It is differential-tested against lxml's validator at start-up (verif/harness/c11.py) and every verdict
"invalid" is confirmed by the real validator in replay before it is reported.
"""
import os
import re
import xml.etree.ElementTree as ET

XS = "{http://www.w3.org/2001/XMLSchema}"
XSD_DIR = os.environ.get("VERIF_XSD_DIR", "/repo/xsd")

DATETIME_RE = re.compile(r"^-?\d{4,}-\d{2}-\d{2}T\d{2}:\d{2}:\d{2}(\.\d+)?(Z|[+-]\d{2}:\d{2})?$")
INTEGER_RE = re.compile(r"^[+-]?\d+$")


class Schema:
    def __init__(self, files):
        self.complex = {}
        self.simple = {}
        self.elements = {}
        for f in files:
            root = ET.parse(os.path.join(XSD_DIR, f)).getroot()
            for c in root:
                if c.tag == XS + "complexType":
                    self.complex[c.get("name")] = c
                elif c.tag == XS + "simpleType":
                    self.simple[c.get("name")] = c
                elif c.tag == XS + "element":
                    self.elements[c.get("name")] = c


_SCHEMAS = {}


def schema():
    if "s" not in _SCHEMAS:
        _SCHEMAS["s"] = Schema(["ASCMHL.xsd", "ASCMHLDirectory.xsd"])
    return _SCHEMAS["s"]


def _local(t):
    return t.split(":", 1)[-1] if t else t


def _tag(el):
    t = el.tag
    return t.split("}", 1)[-1]


def _kids(el):
    return list(el.children) if hasattr(el, "children") else list(el)


# ------------------------------------------------------------------------------------------------ particles
def _occurs(p):
    mn = int(p.get("minOccurs", "1"))
    mx = p.get("maxOccurs", "1")
    return mn, (10 ** 9 if mx == "unbounded" else int(mx))


def _match(p, tags, i):
    """set of end positions after matching particle p (with its occurrence range) at position i"""
    mn, mx = _occurs(p)

    def once(j):
        if p.tag == XS + "element":
            return {j + 1} if j < len(tags) and tags[j] == p.get("name") else set()
        if p.tag == XS + "sequence":
            cur = {j}
            for c in p:
                if c.tag in (XS + "element", XS + "sequence", XS + "choice"):
                    nxt = set()
                    for k in cur:
                        nxt |= _match(c, tags, k)
                    cur = nxt
                    if not cur:
                        break
            return cur
        if p.tag == XS + "choice":
            out = set()
            for c in p:
                if c.tag in (XS + "element", XS + "sequence", XS + "choice"):
                    out |= _match(c, tags, j)
            return out
        return set()

    results = set()
    if mn == 0:
        results.add(i)
    cur, k, seen = {i}, 0, {i}
    while cur and k < mx:
        nxt = set()
        for j in cur:
            nxt |= once(j)
        k += 1
        if k >= mn:
            results |= nxt
        if k >= mn and nxt <= seen:
            break  # only empty repetitions left
        seen |= nxt
        cur = nxt
    return results


def _element_decls(p, out):
    for c in p:
        if c.tag == XS + "element":
            out.setdefault(c.get("name"), c)
        elif c.tag in (XS + "sequence", XS + "choice"):
            _element_decls(c, out)
    return out


# ------------------------------------------------------------------------------------------------ simple types
def _check_simple(sc, tname, value, errs, where, require=None):
    """value: str | token | None(empty)"""
    from . import pse, clock
    t = _local(tname)
    if t in sc.simple:
        st = sc.simple[t]
        r = st.find(XS + "restriction")
        enums = [e.get("value") for e in r.findall(XS + "enumeration")]
        pats = [e.get("value") for e in r.findall(XS + "pattern")]
        if _is_token(value):
            if enums or pats:
                errs.append("%s: opaque token where a restricted %s is required" % (where, t))
            return
        v = "" if value is None else value
        if enums and v not in enums:
            errs.append("%s: %r not in %s" % (where, v, enums))
        for pat in pats:
            if not re.fullmatch(pat, v, re.S):
                errs.append("%s: %r does not match %s" % (where, v, pat))
        return _check_simple(sc, r.get("base"), value, errs, where)
    if t in ("string", "anyType", "anySimpleType", None):
        return
    if t == "integer":
        if isinstance(value, pse.DecStr):
            return
        if _is_token(value) or value is None or not INTEGER_RE.match(value.strip()):
            errs.append("%s: %r is not an xs:integer" % (where, value))
        return
    if t == "dateTime":
        if isinstance(value, clock.IsoStr):
            if value.fmt != "iso":
                errs.append("%s: date rendered with format %r" % (where, value.fmt))
                return
            if value.off is not None:
                off = value.off
                ok = (off % 60 == 0) & (off <= 14 * 3600) & (off >= -14 * 3600) if not isinstance(off, int) else \
                    (off % 60 == 0 and -14 * 3600 <= off <= 14 * 3600)
                if not pse.truth(ok):
                    errs.append("%s: UTC offset is not a whole minute within +-14:00" % where)
            return
        if _is_token(value) or value is None or not DATETIME_RE.match(value.strip()):
            errs.append("%s: %r is not an xs:dateTime" % (where, value))
        return
    errs.append("%s: unsupported simple type %s" % (where, tname))


def _is_token(v):
    return isinstance(v, str) and "\x00" in str.__str__(v)


# ------------------------------------------------------------------------------------------------ complex types
def _validate_type(sc, el, tname, errs, where, inline=None):
    ct = inline if inline is not None else sc.complex.get(_local(tname))
    if ct is None:
        # simple-typed element: no children, no attributes
        if _kids(el):
            errs.append("%s: child elements in simple-typed element" % where)
        for a in el.attrib:
            errs.append("%s: attribute %s not allowed" % (where, a))
        _check_simple(sc, tname, el.text, errs, where)
        return
    attrs_decl = {}
    particle = None
    text_type = None
    cc = ct.find(XS + "complexContent")
    scn = ct.find(XS + "simpleContent")
    if cc is not None:
        ext = cc.find(XS + "extension")
        if _local(ext.get("base")) == "anyType":
            return  # anything goes
        errs.append("%s: unsupported complexContent" % where)
        return
    if scn is not None:
        ext = scn.find(XS + "extension")
        text_type = ext.get("base")
        for a in ext.findall(XS + "attribute"):
            attrs_decl[a.get("name")] = a
    else:
        for c in ct:
            if c.tag in (XS + "sequence", XS + "choice"):
                particle = c
            elif c.tag == XS + "attribute":
                attrs_decl[c.get("name")] = c
    # attributes
    for a, v in el.attrib.items():
        if a not in attrs_decl:
            errs.append("%s: attribute %s not declared" % (where, a))
            continue
        d = attrs_decl[a]
        if d.get("fixed") is not None and v != d.get("fixed"):
            errs.append("%s: attribute %s must be %s" % (where, a, d.get("fixed")))
        if d.get("type"):
            _check_simple(sc, d.get("type"), v, errs, "%s/@%s" % (where, a))
    for a, d in attrs_decl.items():
        if d.get("use") == "required" and a not in el.attrib:
            errs.append("%s: required attribute %s missing" % (where, a))
    kids = _kids(el)
    if text_type is not None:
        if kids:
            errs.append("%s: child elements in simple content" % where)
        _check_simple(sc, text_type, el.text, errs, where)
        return
    tags = [_tag(k) for k in kids]
    if particle is None:
        if kids:
            errs.append("%s: unexpected children %s" % (where, tags))
        return
    if el.text is not None and not _is_token(el.text) and el.text.strip() != "":
        errs.append("%s: text in element-only content" % where)
    ends = _match(particle, tags, 0)
    if len(tags) not in ends:
        errs.append("%s: children %s do not match the content model" % (where, tags))
        return
    decls = _element_decls(particle, {})
    for k in kids:
        d = decls[_tag(k)]
        inl = d.find(XS + "complexType")
        _validate_type(sc, k, d.get("type"), errs, "%s/%s" % (where, _tag(k)), inline=inl)


def validate_root(root, _unused=None):
    """returns a list of error strings (empty = valid)"""
    sc = schema()
    errs = []
    name = _tag(root)
    d = sc.elements.get(name)
    if d is None:
        return ["no global element declaration for %s" % name]
    _validate_type(sc, root, d.get("type"), errs, name)
    return errs
