"""Two interchangeable back-ends behind one imperative scenario API.

ModelBackend : the real command callbacks of /repo/ascmhl run against the environment models (symbolic).
RealBackend  : the same scenario on a real scratch directory with the real CLI and real libraries (concrete);
               its oracle (hashlib/xxhash called directly, own c4 codec, xml.etree reader) shares no code with
               ascmhl or with the models.  Used for replaying counterexamples and for conformance runs.
"""
import hashlib
import os
import posixpath
import shutil
import sys
import tempfile

from . import pse, obs
from .pse import Violation

DEFAULT_MTIME = 1577836800  # 2020-01-01T00:00:00Z
BASE_NOW = 1579093200  # 2020-01-15T13:00:00Z
C4_CHARSET = "123456789ABCDEFGHJKLMNPQRSTUVWXYZabcdefghijkmnopqrstuvwxyz"


class Result:
    def __init__(self, exit, exc, out, err, ops=None, exc_obj=None):
        self.exit, self.exc, self.out, self.err, self.ops, self.exc_obj = exit, exc, out, err, ops, exc_obj

    def text(self):
        return "\n".join(self.out + self.err)

    def __repr__(self):
        return "Result(exit=%r exc=%r)" % (self.exit, self.exc)


class ReplayInfeasible(Exception):
    pass


class ConcSym:
    """replays recorded input values (from a solver model) on either back-end"""
    symbolic = False

    def __init__(self, values):
        self.values = dict(values)
        self.used = {}

    def int(self, name, lo=None, hi=None):
        v = self.values.get(name, lo if lo is not None else 0)
        self.used[name] = v
        return v

    def choose(self, name, options):
        options = list(options)
        i = self.values.get(name, 0)
        self.used[name] = i
        return options[min(i, len(options) - 1)]

    def flag(self, name):
        return self.choose(name, [False, True])

    def bool(self, name):
        v = bool(self.values.get(name, False))
        self.used[name] = v
        return v

    def assume(self, cond):
        if not cond:
            raise ReplayInfeasible()


class EngSym:
    symbolic = True

    def __init__(self, engine):
        self.e = engine

    def int(self, name, lo=None, hi=None):
        return self.e.fresh_int(name, lo, hi)

    def choose(self, name, options):
        return self.e.choose(name, options)

    def flag(self, name):
        return self.e.flag(name)

    def bool(self, name):
        return self.e.fresh_bool(name)

    def assume(self, cond):
        self.e.assume(cond)


CMD_TOOL = {"create": "ascmhl", "diff": "ascmhl", "flatten": "ascmhl", "info": "ascmhl",
            "verify": "ascmhl-debug", "hash": "ascmhl-debug", "xsd-schema-check": "ascmhl-debug"}


class Backend:
    real = False
    base = None

    def p(self, rel):
        return self.base if rel in ("", ".") else posixpath.join(self.base, rel)

    def require(self, cond, assert_id, detail="", soft=False):
        pse.require(cond, assert_id, detail, soft)

    def note(self, text):
        pass

    # ------------------------------------------------------------------ reference evaluation helpers
    def dir_hashes(self, fmt, rel, ignored=lambda rel, is_dir: False):
        """reference evaluator of the directory-hash definition over the current tree.
        returns (content, structure) of directory `rel`; ignored(rel, is_dir) decides exclusion."""
        contents, structures = [], []
        for name in self.listdir(rel):
            child = posixpath.join(rel, name)
            is_dir = self.isdir(child)
            if ignored(child, is_dir):
                continue
            if is_dir:
                c, s = self.dir_hashes(fmt, child, ignored)
                contents.append(c)
                structures.append(self.hash_name_dig(fmt, name, s))
            else:
                d = self.H(fmt, child)
                contents.append(d)
                structures.append(self.hash_name_dig(fmt, name, d))
        return self.hash_digs(fmt, sorted(contents)), self.hash_digs(fmt, sorted(structures))


# =============================================================================================== model
class ModelBackend(Backend):
    real = False

    def __init__(self, engine, base="/mnt", summarise_c4=True, listing="reversed", xsd=None, symbolic_order=False):
        from . import world as W, tokens
        tokens.reset()
        tokens.Dig.symbolic_order = symbolic_order
        self.W = W
        self.e = engine
        self.world = W.World()
        self.world.listing = listing
        self.world.hm.concrete_ids = not symbolic_order
        self.base = base
        self.world.mkdirs(base)
        self.world.cwd = base
        self.ins = W.install(self.world, summarise_c4=summarise_c4, xsd=xsd)
        self.tick = 10
        self.step = 0
        self.notes = []

    def close(self):
        from . import tokens
        tokens.Dig.symbolic_order = False
        self.ins.restore()

    def sibling(self, base, listing=None):
        """a second world (other mount point / enumeration order) explored on the same path; close() it before using self again"""
        from . import world as W
        o = ModelBackend.__new__(ModelBackend)
        o.W, o.e = W, self.e
        o.world = W.World()
        o.world.listing = listing or self.world.listing
        o.world.hm = self.world.hm  # same digest universe
        o.world.now = BASE_NOW
        o.base = base
        o.world.mkdirs(base)
        o.world.cwd = base
        o.ins = W.install(o.world)
        o._tick = self._tick
        o.step = 0
        o.notes = self.notes
        return o

    def copy_tree_to(self, rel, other, rel2):
        src = self.p(rel)
        for q, n in self.world.nodes.items():
            if q == src or q.startswith(src + "/"):
                other.world.mkdirs(posixpath.dirname(other.p(rel2) + q[len(src):]))
                other.world.nodes[other.p(rel2) + q[len(src):]] = n.clone()

    def fingerprint(self, rel):
        """what 'the bytes of this file' are in the model: literal pieces + element trees"""
        from . import tokens
        n = self.world.nodes[self.p(rel)]
        if n.content is None:
            return ("opaque", n.cid)
        out = []
        text = b"".join(n.content).decode("utf-8", "replace")
        pos = 0
        for m in tokens.KEY_RE.finditer(text):
            if m.group(1) != "XML":
                continue
            out.append(text[pos:m.start()])
            out.append(("el", tokens.lookup(m.group(0)).el))
            pos = m.end()
        out.append(text[pos:])
        return ("xml", out)

    def same_bytes(self, fa, fb):
        from . import tokens
        if fa[0] != fb[0]:
            return False
        if fa[0] == "opaque":
            return fa[1] == fb[1]
        a, b_ = fa[1], fb[1]
        if len(a) != len(b_):
            return False
        res = True
        for x, y in zip(a, b_):
            if isinstance(x, tuple) and isinstance(y, tuple):
                r = _same_el(x[1], y[1])
                if r is False:
                    return False
                if r is not True:
                    res = r if res is True else (res & r)
            elif isinstance(x, tuple) or isinstance(y, tuple) or x != y:
                return False
        return res

    def note(self, text):
        self.notes.append(text)
        self.e.path_note = "; ".join(self.notes)

    # ---- tree
    def mkdir(self, rel, mtime=DEFAULT_MTIME):
        self.world.mkdirs(self.p(rel), mtime)

    def mkfile(self, rel, cid, size=5, mtime=DEFAULT_MTIME, layout="dense"):
        return self.world.add_file(self.p(rel), cid, size, mtime)

    def symlink(self, target_rel, link_rel):
        """a symbolic link at link_rel pointing to target_rel (absolute target)"""
        self.world.add_link(self.p(link_rel), self.p(target_rel))

    def islink(self, rel):
        return self.world.islink(self.p(rel))

    def write_text(self, rel, text):
        self.world.add_text_file(self.p(rel), text)

    def alter(self, rel, cid, size=None):
        n = self.world.nodes[self.p(rel)]
        n.cid = cid
        if size is not None:
            n.size = size

    def delete(self, rel):
        self.world.remove_tree(self.p(rel))

    def rename(self, src, dst):
        self.world.mkdirs(posixpath.dirname(self.p(dst)))
        self.world.move(self.p(src), self.p(dst))

    def touch(self, rel, mtime):
        self.world.nodes[self.p(rel)].mtime = mtime

    def restamp(self, rel):
        pass

    def renumber_generation(self, hist_rel, old_name, new_number):
        """rename a committed manifest to another generation number and patch the chain accordingly (to reach high generation
        numbers without thousands of runs); returns the new file name"""
        from . import fakexml, tokens
        new_name = "%04d%s" % (new_number, old_name[4:])
        folder = posixpath.join(self.p(hist_rel), "ascmhl")
        self.world.nodes[posixpath.join(folder, new_name)] = self.world.nodes.pop(posixpath.join(folder, old_name))
        chain = self.world.nodes[posixpath.join(folder, "ascmhl_chain.xml")]
        text = b"".join(chain.content).decode("utf-8")
        for m in tokens.KEY_RE.finditer(text):
            if m.group(1) == "XML":
                el = tokens.lookup(m.group(0)).el
                p = el.find("path")
                if p is not None and p.text == old_name:
                    p.text = new_name
                    el.attrib["sequencenr"] = str(new_number)
        chain.cid = self.world.content_cid(chain)
        return new_name

    def set_now(self, t, micro=0):
        self.world.now, self.world.now_micro = t, micro

    def current_now(self):
        return self.world.now

    def set_zone(self, std_off, dst_off, dst_now, dst_file, t_file, file_repeated=False, extra=()):
        """zone with standard / daylight offset; isdst(t) = dst_file for the file instant, dst_now for every other instant;
        file_repeated: the file instant lies in the second occurrence of the hour repeated at the end of daylight saving;
        extra: further (instant, dst flag) pairs"""
        import z3
        from .pse import SymBool, SymInt, _z, _zb
        W = self.W

        def isdst(t):
            if isinstance(dst_now, bool) and isinstance(dst_file, bool) and not isinstance(t, SymInt) and not isinstance(t_file, SymInt) and not extra:
                return dst_file if t == t_file else dst_now
            r = z3.If(_z(t) == _z(t_file), _zb(dst_file), _zb(dst_now))
            for (te, fe) in extra:
                r = z3.If(_z(t) == _z(te), _zb(fe), r)
            return SymBool(r)

        def second(t):
            if file_repeated is False:
                return False
            if isinstance(file_repeated, bool) and not isinstance(t, SymInt) and not isinstance(t_file, SymInt):
                return file_repeated and t == t_file
            return SymBool(z3.And(_z(t) == _z(t_file), _zb(file_repeated)))

        self.world.zone = W.Zone(std_off, dst_off, isdst, second)

    def set_zone_history(self, name, std_now, t_past, off_past):
        """a zone without daylight saving today whose rules were different at instant t_past (e.g. Europe/Moscow before 2014)"""
        self.world.zone = self.W.Zone(std_now, std_now, past={t_past: off_past})

    def now_window(self):
        t = getattr(self, "last_run_now", self.world.now)
        return (t, t)

    def use_fixed_offset(self, seconds):
        """a time zone without daylight saving, `seconds` east of UTC"""
        self.world.zone = self.W.Zone(seconds, seconds)

    @property
    def tick(self):
        return self._tick

    @tick.setter
    def tick(self, v):
        self._tick = v

    # ---- queries
    def exists(self, rel):
        return self.p(rel) in self.world.nodes

    def isdir(self, rel):
        return self.world.isdir(self.p(rel))

    def listdir(self, rel):
        return sorted(self.world._children(self.p(rel)))

    def walk_files(self, rel=""):
        pre = self.p(rel) + "/"
        return sorted(q[len(self.base) + 1:] for q, n in self.world.nodes.items() if q.startswith(pre) and n.kind == "file")

    def walk_dirs(self, rel=""):
        pre = self.p(rel) + "/"
        return sorted(q[len(self.base) + 1:] for q, n in self.world.nodes.items() if q.startswith(pre) and n.kind == "dir")

    def size(self, rel):
        return self.world.nodes[self.p(rel)].size

    def mtime(self, rel):
        return self.world.nodes[self.p(rel)].mtime

    def snapshot(self, rel=""):
        pre = self.p(rel)
        return {q[len(self.base) + 1:]: (n.kind, n.cid, n.size, n.mtime) for q, n in self.world.nodes.items()
                if q == pre or q.startswith(pre + "/")}

    def same_node(self, a, b):
        """a, b: snapshot tuples"""
        if a[0] != b[0]:
            return False
        r = True
        for x, y in zip(a[1:], b[1:]):
            if x is None or y is None:
                if x is not y:
                    return False
                continue
            c = x == y
            if isinstance(c, bool):
                if not c:
                    return False
            else:
                r = c if r is True else (r & c)
        return r

    # ---- digests (expected values)
    def _alg(self, fmt):
        return self.W.FORMAT_ALG[fmt]

    def H(self, fmt, rel):
        n = self.world.nodes[self.p(rel)]
        return self.Hcid(fmt, n.cid, n.size)

    def Hcid(self, fmt, cid, size):
        if pse.truth(size == 0):
            return self.world.hm.digest(self._alg(fmt), [])
        return self.world.hm.digest(self._alg(fmt), [1, cid])

    def Hempty(self, fmt):
        return self.world.hm.digest(self._alg(fmt), [])

    def Hbytes(self, fmt, data):
        if len(data) == 0:
            return self.Hempty(fmt)
        return self.world.hm.digest(self._alg(fmt), [2, self.world.hm.bytes_id(data)])

    def digests_in(self, line):
        from . import tokens
        return [t for t in tokens.tokens_in(line) if isinstance(t, tokens.Dig)]

    def digest_after(self, line, sep):
        from . import tokens
        toks = [t for t in tokens.tokens_in(line.split(sep, 1)[1]) if isinstance(t, tokens.Dig)]
        if len(toks) != 1:
            raise Violation("digest-not-printed", line)
        return toks[0]

    def hash_digs(self, fmt, digs):
        flat = []
        for d in digs:
            flat += [3, self.W._ALG_IDS[d.alg], d.val]
        return self.world.hm.digest(self._alg(fmt), flat)

    def hash_name_dig(self, fmt, name, dig):
        return self.world.hm.digest(self._alg(fmt), [2, self.world.hm.bytes_id(name.encode("utf8")),
                                                    3, self.W._ALG_IDS[dig.alg], dig.val])

    def int_attr(self, v):
        """value of an integer-valued attribute read from a manifest"""
        if v is None:
            return None
        if isinstance(v, pse.DecStr):
            return v.sym
        return int(v)

    def date_attr(self, v):
        """(instant, micro, offset|None) of a date attribute/text"""
        from . import clock
        if v is None:
            return None
        d = clock.FakeDateutil(self.world).parser.parse(v)
        return (d.t, d.micro, d.off)

    # ---- manifests
    def _doc(self, path):
        from . import fakexml
        n = self.world.nodes[path]
        if n.content is None:
            raise pse.HarnessError("opaque content at %s" % path)
        return fakexml.parse_document(b"".join(n.content))

    def manifest_names(self, hist_rel):
        folder = posixpath.join(self.p(hist_rel), "ascmhl")
        if folder not in self.world.nodes:
            return []
        return sorted(n for n in self.world._children(folder) if n.endswith(".mhl"))

    def folder_listing(self, rel):
        return sorted(self.world._children(self.p(rel)))

    def manifests(self, hist_rel):
        from . import fakexml
        out = []
        for name in self.manifest_names(hist_rel):
            path = posixpath.join(self.p(hist_rel), "ascmhl", name)
            try:
                m = obs.read_manifest(self._doc(path), name)
            except fakexml.XMLSyntaxError as ex:
                raise Violation("manifest-unparsable", "%s: %s" % (name, ex))
            out.append(m)
        return out

    def read_manifest_at(self, rel):
        return obs.read_manifest(self._doc(self.p(rel)), posixpath.basename(rel))

    def chain(self, hist_rel, name="ascmhl_chain.xml", folder="ascmhl"):
        from . import fakexml
        path = posixpath.join(self.p(hist_rel), folder, name)
        if path not in self.world.nodes:
            return None
        try:
            return obs.read_chain(self._doc(path))
        except fakexml.XMLSyntaxError as ex:
            raise Violation("chain-unparsable", str(ex))

    def xml_files(self, rel=""):
        return [f for f in self.walk_files(rel) if f.endswith(".mhl") or f.endswith("ascmhl_chain.xml") or f.endswith("ascmhl_collection.xml")]

    def validate_xml(self, rel):
        """schema errors of one written file (xsdmini on the modelled infoset)"""
        from . import xsdmini, fakexml
        try:
            return xsdmini.validate_root(self._doc(self.p(rel)))
        except fakexml.XMLSyntaxError as ex:
            return ["not well-formed: %s" % ex]

    def file_token(self, rel):
        """identity of a file's current bytes (for 'byte-identical' assertions)"""
        n = self.world.nodes[self.p(rel)]
        return (n.cid, n.size)

    # ---- commands
    def run(self, cmd, root="R", cwd=None, **o):
        import click
        import ascmhl.commands as C
        w = self.world
        w.log = []
        mark = len(w.ops)
        w.cwd = self.p(cwd) if cwd is not None else self.base
        rp = None if root is None else (self.p(root) if cwd is None else root)  # with cwd given, root is passed verbatim
        ap = lambda x: None if x is None else (x if cwd is not None else self.p(x))
        creator = dict(author_name=o.get("author_name"), author_email=o.get("author_email"),
                       author_phone=o.get("author_phone"), author_role=o.get("author_role"),
                       location=o.get("location"), comment=o.get("comment"))
        if cmd == "create":
            fn = C.create.callback
            kw = dict(root_path=rp, verbose=o.get("v", False), hash_format=tuple(o.get("h", ["xxh128"])),
                      no_directory_hashes=o.get("n", False), detect_renaming=o.get("dr", False),
                      single_file=tuple(ap(x) for x in o.get("sf", ())), ignore_list=tuple(o.get("i", ())),
                      ignore_spec_file=ap(o.get("ii")), **creator)
        elif cmd == "verify":
            fn = C.verify.callback
            kw = dict(root_path=rp, verbose=o.get("v", False), directory_hash=o.get("dh", False),
                      hash_format=o.get("h"), single_file=ap(o.get("sf")), packing_list=ap(o.get("pl")),
                      ignore_list=tuple(o.get("i", ())), ignore_spec_file=ap(o.get("ii")),
                      calculate_only=o.get("co", False), root_only=o.get("ro", False))
        elif cmd == "diff":
            fn = C.diff.callback
            kw = dict(root_path=rp, verbose=o.get("v", False), ignore_list=tuple(o.get("i", ())),
                      ignore_spec_file=ap(o.get("ii")))
        elif cmd == "info":
            fn = C.info.callback
            kw = dict(verbose=o.get("v", False), single_file=tuple(ap(x) for x in o.get("sf", ())),
                      root_path=None if root is None else rp)
        elif cmd == "flatten":
            fn = C.flatten.callback
            kw = dict(root_path=rp, destination_path=ap(o["dest"]), verbose=o.get("v", False),
                      no_directory_hashes=o.get("n", False), ignore_list=tuple(o.get("i", ())),
                      ignore_spec_file=ap(o.get("ii")), **creator)
        elif cmd == "hash":
            fn = C.hash.callback
            kw = dict(file_path=ap(o["file"]), hash_format=o["h"])
        elif cmd == "xsd-schema-check":
            fn = C.xsd_schema_check.callback
            kw = dict(file_path=ap(o["file"]), directory_file=o.get("df", False), xsd_file=None)
        else:
            raise pse.HarnessError("unknown command %s" % cmd)
        exit_code, exc, exc_obj = 0, None, None
        w.crash_at = None if o.get("crash_at") is None else len(w.ops) + o["crash_at"]
        w.crash_torn = bool(o.get("torn"))
        try:
            try:
                fn(**kw)
            finally:
                killed = isinstance(sys.exc_info()[1], self.W.Crash)
                for wf in list(w.open_writers):
                    if not killed:
                        wf.collect()  # file objects left open are flushed when they are garbage collected
                w.open_writers = []
        except self.W.Crash:
            exit_code, exc = "killed", "Crash"
        except click.ClickException as ex:
            exit_code, exc, exc_obj = ex.exit_code, type(ex).__name__, ex
        except click.exceptions.Exit as ex:
            exit_code = ex.exit_code
        except click.Abort as ex:
            exit_code, exc = 1, "Abort"
        except Exception as ex:  # what click would turn into a traceback and exit code 1
            _raise_if_model_gap(ex)
            exit_code, exc, exc_obj = 1, type(ex).__name__, ex
        out, err = [], []
        for kind, msg in w.log:
            (out if kind == "out" else err).extend(_plain(msg).split("\n"))
        if exc_obj is not None and isinstance(exc_obj, click.ClickException):
            err.append("Error: " + _plain(exc_obj.format_message()))
        w.crash_at = None
        w.cwd = self.base
        self.step += 1
        self.last_run_now = w.now
        w.now = w.now + self.tick
        return Result(exit_code, exc, out, err, list(w.ops[mark:]), exc_obj)


_MODEL_TYPES = ("ReadFile", "WriteFile", "Chunk", "RecHasher", "FakeOS", "FakeOSPath", "FakeEtree", "El", "FakeDatetime", "FakeTimedelta",
                "FakeTimezone", "FakeTimeModule", "FakeDatetimeModule", "BytesTok", "Dig", "DecStr", "XmlStr", "IsoStr", "SymInt", "SymBool", "_Tree",
                "FakeSchema", "FakeGlob", "SimpleNamespace")


def _raise_if_model_gap(ex):
    """an exception caused by the models not offering what the code under test used is a model gap, not behaviour of the tool"""
    import traceback
    from .world import ModelGap
    tb = ex.__traceback__
    last = None
    while tb is not None:
        last = tb
        tb = tb.tb_next
    here = os.path.dirname(os.path.abspath(__file__))
    msg = str(ex)
    if isinstance(ex, (AttributeError, TypeError)) and any(("'%s'" % t) in msg or (" %s " % t) in msg or msg.startswith(t) for t in _MODEL_TYPES):
        raise ModelGap("%s: %s" % (type(ex).__name__, msg))
    if last is not None and last.tb_frame.f_code.co_filename.startswith(here) and isinstance(ex, (AttributeError, TypeError, NotImplementedError, KeyError, IndexError)):
        raise ModelGap("%s inside the model: %s" % (type(ex).__name__, msg))


def _same_el(a, b):
    """structural equality of two element trees; digests compare symbolically"""
    from . import tokens
    if a.tag != b.tag or len(a.children) != len(b.children) or sorted(a.attrib) != sorted(b.attrib):
        return False
    res = True

    def conj(r):
        nonlocal res
        if r is False:
            return False
        if r is not True:
            res = r if res is True else (res & r)
        return True

    def same_text(x, y):
        if x is None or y is None:
            return (x or None) is (y or None) or (x in (None, "") and y in (None, ""))
        if isinstance(x, tokens.Dig) or isinstance(y, tokens.Dig):
            return x == y
        if isinstance(x, pse.DecStr) or isinstance(y, pse.DecStr):
            if isinstance(x, pse.DecStr) and isinstance(y, pse.DecStr):
                return x.sym == y.sym
            return False
        if tokens.has_key(x) or tokens.has_key(y):
            return tokens.plain(x) == tokens.plain(y)
        return x == y

    if not conj(same_text(a.text, b.text)):
        return False
    for k in a.attrib:
        if not conj(same_text(a.attrib[k], b.attrib[k])):
            return False
    for c, d in zip(a.children, b.children):
        if not conj(_same_el(c, d)):
            return False
    return res


def _plain(s):
    from . import tokens
    return tokens.plain(s) if isinstance(s, str) else str(s)


# =============================================================================================== real
CONTENT_SEED = [0]
HOLE = 256 * 1024


def _hole_ranges(size, layout):
    """block-aligned byte ranges that are never written (the file system keeps them as holes)"""
    if layout == "dense" or size < 8192:
        return []
    al = lambda x: x // 4096 * 4096
    if layout == "hole-start":
        return [(0, al(min(HOLE, size - 4096)))]
    if layout == "hole-middle":
        a = al(size // 2)
        return [(a, al(min(a + HOLE, size - 1)))] if al(min(a + HOLE, size - 1)) > a else []
    if layout == "hole-end":
        a = al(max(4096, size - HOLE))
        return [(a, size)] if size > a else []
    raise ValueError(layout)


def real_content(cid, size):
    if size == 0:
        return b""
    seed = hashlib.sha256(b"cid:%d:%d" % (cid, CONTENT_SEED[0]) if CONTENT_SEED[0] else b"cid:%d" % cid).digest()
    head = bytes([cid % 251 + 1])
    return (head + seed * (size // 32 + 1))[:size]


def c4_encode(raw64: bytes) -> str:
    v = int.from_bytes(raw64, "big")
    s = ""
    while v:
        v, r = divmod(v, 58)
        s = C4_CHARSET[r] + s
    return "c4" + "1" * (88 - len(s)) + s


def c4_decode(s: str) -> bytes:
    v = 0
    for ch in s[2:]:
        v = v * 58 + C4_CHARSET.index(ch)
    return v.to_bytes(64, "big")


def real_digest(fmt, data: bytes) -> str:
    import xxhash
    if fmt == "md5":
        return hashlib.md5(data).hexdigest()
    if fmt == "sha1":
        return hashlib.sha1(data).hexdigest()
    if fmt == "c4":
        return c4_encode(hashlib.sha512(data).digest())
    if fmt == "xxh32":
        return xxhash.xxh32(data).hexdigest()
    if fmt == "xxh64":
        return xxhash.xxh64(data).hexdigest()
    if fmt == "xxh3":
        return xxhash.xxh3_64(data).hexdigest()
    if fmt == "xxh128":
        return xxhash.xxh3_128(data).hexdigest()
    raise ValueError(fmt)


def real_decode(fmt, digest: str) -> bytes:
    return c4_decode(digest) if fmt == "c4" else bytes.fromhex(digest)


_AUDIT = {"on": False, "ops": [], "root": None, "installed": False}


def _audit_hook(event, args):
    if not _AUDIT["on"]:
        return
    try:
        if event == "open":
            path, mode, flags = args
            if isinstance(path, str) and isinstance(flags, int) and flags & (os.O_WRONLY | os.O_RDWR | os.O_CREAT | os.O_TRUNC | os.O_APPEND):
                _AUDIT["ops"].append(("open_w", os.path.abspath(path)))
        elif event in ("os.mkdir", "os.remove", "os.rmdir", "os.truncate", "os.chmod", "os.utime", "os.chown", "os.link", "os.symlink"):
            _AUDIT["ops"].append((event[3:], os.path.abspath(str(args[0]))))
        elif event in ("os.rename", "shutil.move", "shutil.copyfile"):
            _AUDIT["ops"].append(("replace", os.path.abspath(str(args[0])), os.path.abspath(str(args[1]))))
        elif event == "shutil.rmtree":
            _AUDIT["ops"].append(("remove", os.path.abspath(str(args[0]))))
    except Exception:
        pass


class RealBackend(Backend):
    real = True

    def __init__(self, clock="freeze", tz="UTC"):
        self.tmp = tempfile.mkdtemp(prefix="mhlverif-")
        self.base = os.path.join(self.tmp, "mnt")
        os.mkdir(self.base)
        self.clock = clock
        self.now = BASE_NOW
        self.now_micro = 0
        self.tick = 10
        self.tz = tz
        self.step = 0
        self.perm = None  # optional listing permutation hook (C13)
        self.listing = "os"

    def close(self):
        if getattr(self, "_owner", True):
            shutil.rmtree(self.tmp, ignore_errors=True)

    def sibling(self, base, listing=None):
        o = RealBackend.__new__(RealBackend)
        o.__dict__.update(self.__dict__)
        o._owner = False
        o.base = os.path.join(self.tmp, "alt", base.lstrip("/"))
        os.makedirs(o.base, exist_ok=True)
        o.now = BASE_NOW
        o.step = 0
        o.listing = listing or getattr(self, "listing", "sorted")
        return o

    def copy_tree_to(self, rel, other, rel2):
        shutil.copytree(self.p(rel), other.p(rel2), symlinks=True)

    def fingerprint(self, rel):
        return self._bytes(rel)

    def same_bytes(self, fa, fb):
        return fa == fb

    # ---- tree
    def _stamp_dirs(self, path):
        """directories get a fixed modification time too (adding entries changes it), so that two builds of a tree are identical"""
        d = path
        while d.startswith(self.base) and d != self.base:
            if os.path.isdir(d) and os.path.basename(d) != "ascmhl":
                os.utime(d, (DEFAULT_MTIME, DEFAULT_MTIME))
            d = os.path.dirname(d)

    def mkdir(self, rel, mtime=DEFAULT_MTIME):
        os.makedirs(self.p(rel), exist_ok=True)
        self._stamp_dirs(self.p(rel))

    def mkfile(self, rel, cid, size=5, mtime=DEFAULT_MTIME, layout="dense"):
        """layout: how the bytes are laid out on the medium - dense, or sparse with a 256 KiB hole (which reads as zeros) at the
        start / in the middle / at the end. The content of the file is a function of (cid, size, layout) all the same."""
        path = self.p(rel)
        os.makedirs(os.path.dirname(path), exist_ok=True)
        data = real_content(cid, size)
        holes = _hole_ranges(size, layout)
        with open(path, "wb") as f:
            if not holes:
                f.write(data)
            else:
                f.truncate(size)
                pos = 0
                for a, e in holes + [(size, size)]:
                    if a > pos:
                        f.seek(pos)
                        f.write(data[pos:a])
                    pos = e
        os.utime(path, (mtime, mtime))
        self._stamp_dirs(os.path.dirname(path))

    def symlink(self, target_rel, link_rel):
        os.makedirs(os.path.dirname(self.p(link_rel)), exist_ok=True)
        os.symlink(self.p(target_rel), self.p(link_rel))
        os.utime(self.p(link_rel), (DEFAULT_MTIME, DEFAULT_MTIME), follow_symlinks=False)
        self._stamp_dirs(os.path.dirname(self.p(link_rel)))

    def islink(self, rel):
        return os.path.islink(self.p(rel))

    def write_text(self, rel, text):
        path = self.p(rel)
        os.makedirs(os.path.dirname(path), exist_ok=True)
        with open(path, "w") as f:
            f.write(text)

    def alter(self, rel, cid, size=None):
        path = self.p(rel)
        st = os.stat(path)
        if path.endswith(".mhl") or path.endswith(".xml"):
            # tampering with a manifest: the kind of byte edit is selected by the (otherwise opaque) new content id
            data = open(path, "rb").read()
            kind = cid % 7
            if kind == 1:
                data = data + b"\n"
            elif kind == 2:
                i = len(data) // 2
                data = data[:i] + bytes([data[i] ^ 0x01]) + data[i + 1:]
            elif kind == 3:
                i = data.index(b"\n")
                data = data[:i] + b"\r" + data[i:]
            elif kind == 4:
                data = data[:-1]
            elif kind == 5:
                data = data.replace(b"\n", b"\r\n")
            elif kind == 6:
                i = data.index(b">") + 1
                data = data[:i] + b" " + data[i:]
            else:
                data = data.rstrip(b"\n") + b"<!-- -->\n"
            with open(path, "wb") as f:
                f.write(data)
        else:
            with open(path, "wb") as f:
                f.write(real_content(cid, st.st_size if size is None else size))
        os.utime(path, (st.st_mtime, st.st_mtime))

    def delete(self, rel):
        path = self.p(rel)
        if os.path.isdir(path):
            shutil.rmtree(path)
        else:
            os.remove(path)

    def rename(self, src, dst):
        os.makedirs(os.path.dirname(self.p(dst)), exist_ok=True)
        os.rename(self.p(src), self.p(dst))

    def touch(self, rel, mtime):
        os.utime(self.p(rel), (mtime, mtime))

    def restamp(self, rel):
        """give a directory its build-time modification time back (the kernel bumps it when the tool creates the ascmhl folder)"""
        os.utime(self.p(rel), (DEFAULT_MTIME, DEFAULT_MTIME))

    def renumber_generation(self, hist_rel, old_name, new_number):
        new_name = "%04d%s" % (new_number, old_name[4:])
        folder = os.path.join(self.p(hist_rel), "ascmhl")
        os.rename(os.path.join(folder, old_name), os.path.join(folder, new_name))
        cp = os.path.join(folder, "ascmhl_chain.xml")
        text = open(cp, encoding="utf-8").read()
        import re as _re
        seq = str(int(old_name[:4]))
        text = text.replace("<path>%s</path>" % old_name.replace("&", "&amp;").replace("<", "&lt;").replace(">", "&gt;"),
                            "<path>%s</path>" % new_name.replace("&", "&amp;").replace("<", "&lt;").replace(">", "&gt;"))
        text = text.replace('sequencenr="%s"' % seq, 'sequencenr="%d"' % new_number, 1)
        open(cp, "w", encoding="utf-8").write(text)
        return new_name

    def set_now(self, t, micro=0):
        self.now, self.now_micro = t, micro

    def current_now(self):
        import time
        return self.now if self.clock == "freeze" else int(time.time())

    def use_fixed_offset(self, seconds):
        import time
        sign = "-" if seconds > 0 else ("+" if seconds < 0 else "")
        a = abs(seconds)
        self.tz = "VST%s%d:%02d" % (sign, a // 3600, (a % 3600) // 60) if seconds else "UTC"
        self.fixed_offset = seconds  # freezegun does not look at TZ for now(): it is told the offset explicitly
        os.environ["TZ"] = self.tz
        time.tzset()

    def set_zone_history(self, name, std_now, t_past, off_past):
        """the real zone database entry `name`, real clock"""
        self.clock = "real"
        self.tz = name

    def now_window(self):
        """(earliest, latest) instant 'now' may denote for the last command (real clock: the command's run time)"""
        return self.last_window if self.clock != "freeze" else (self.now - self.tick, self.now - self.tick)

    def set_zone(self, std_off, dst_off, dst_now, dst_file, t_file, file_repeated=False, extra=()):
        """real clock + a POSIX TZ rule under which now / the file instant have the requested DST flags"""
        import time, datetime as dt
        self.clock = "real"
        now = int(time.time())

        def hhmm(off):  # POSIX sign is inverted
            sign = "-" if off > 0 else ""
            off = abs(off)
            return "%s%d:%02d" % (sign, off // 3600, (off % 3600) // 60)

        if dst_off == std_off:
            self.tz = "VST%s" % hhmm(std_off)
            return
        doy = lambda t: max(1, min(365, dt.datetime.fromtimestamp(t, dt.timezone.utc).timetuple().tm_yday))
        dn, df = doy(now), doy(t_file)

        def inside(d, a, e):
            return (a <= d < e) if a < e else (d >= a or d < e)

        # a DST period that (a) gives the two instants the requested flags, (b) keeps >= 3 days distance from both and
        # (c) like every real zone contains exactly one of 1 January / 1 July (CPython derives time.altzone from those two days)
        start = end = None
        end_time = "0"
        ends = range(1, 366, 3)
        if file_repeated:
            # daylight saving ends half an hour before the file instant: the file time is in the second occurrence of the repeated hour
            sw = dt.datetime.fromtimestamp(t_file - 1800 + dst_off, dt.timezone.utc)
            ends = [max(1, min(365, sw.timetuple().tm_yday))]
            end_time = "%d:%02d:%02d" % (sw.hour, sw.minute, sw.second)
        for a in range(1, 366, 3):
            for e in ends:
                if a == e:
                    continue
                ok = inside(dn, a, e) == bool(dst_now) and inside(df, a, e) == bool(dst_file) and inside(1, a, e) != inside(182, a, e)
                ok = ok and all(min(abs(d - x), 365 - abs(d - x)) >= 3 for d in (dn, df) for x in (a, e) if not (file_repeated and d == df and x == e))
                if ok:
                    start, end = a, e
                    break
            if start:
                break
        if start is None:
            raise ReplayInfeasible()
        self.tz = "VST%sVDT%s,J%d/0,J%d/%s" % (hhmm(std_off), hhmm(dst_off), start, end, end_time)

    # ---- queries
    def exists(self, rel):
        return os.path.exists(self.p(rel))

    def isdir(self, rel):
        return os.path.isdir(self.p(rel))

    def listdir(self, rel):
        return sorted(os.listdir(self.p(rel)))

    def _walk(self, rel, want_dirs):
        out = []
        top = self.p(rel)
        for r, ds, fs in os.walk(top):
            for n in (ds if want_dirs else fs):
                if not os.path.islink(os.path.join(r, n)):  # (symbolic links are neither files nor directories of the tree)
                    out.append(os.path.relpath(os.path.join(r, n), self.base))
        return sorted(out)

    def walk_files(self, rel=""):
        return self._walk(rel, False)

    def walk_dirs(self, rel=""):
        return self._walk(rel, True)

    def size(self, rel):
        return os.path.getsize(self.p(rel))

    def mtime(self, rel):
        return int(os.path.getmtime(self.p(rel)))

    def snapshot(self, rel=""):
        out = {}
        top = self.p(rel)
        for r, ds, fs in os.walk(top):
            for n in ds + fs:
                q = os.path.join(r, n)
                st = os.lstat(q)
                if os.path.islink(q):
                    out[os.path.relpath(q, self.base)] = ("link", os.readlink(q), None, None)
                elif os.path.isdir(q):
                    out[os.path.relpath(q, self.base)] = ("dir", None, None, None if self._volatile_dir(q) else st.st_mtime_ns)
                else:
                    with open(q, "rb") as f:
                        out[os.path.relpath(q, self.base)] = ("file", hashlib.sha256(f.read()).hexdigest(), st.st_size, st.st_mtime_ns)
        st = os.lstat(top)
        out[os.path.relpath(top, self.base) if top != self.base else ""] = ("dir", None, None, None)
        return out

    def _volatile_dir(self, q):
        return True  # directory mtimes are updated by the kernel when entries are added: outside the claim

    def same_node(self, a, b):
        return a == b

    # ---- digests
    def _bytes(self, rel):
        with open(self.p(rel), "rb") as f:
            return f.read()

    def H(self, fmt, rel):
        return real_digest(fmt, self._bytes(rel))

    def Hcid(self, fmt, cid, size):
        return real_digest(fmt, real_content(cid, size))

    def Hempty(self, fmt):
        return real_digest(fmt, b"")

    def Hbytes(self, fmt, data):
        return real_digest(fmt, data)

    def digests_in(self, line):
        import re
        return re.findall(r"(?<![0-9A-Za-z])(?:c4[1-9A-HJ-NP-Za-km-z]{88}|[0-9a-f]{8,40})(?![0-9A-Za-z])", line)

    def digest_after(self, line, sep):
        return line.split(sep, 1)[1].strip()

    def hash_digs(self, fmt, digs):
        return real_digest(fmt, b"".join(real_decode(fmt, d) for d in digs))

    def hash_name_dig(self, fmt, name, dig):
        return real_digest(fmt, name.encode("utf8") + real_decode(fmt, dig))

    def int_attr(self, v):
        return None if v is None else int(v)

    def date_attr(self, v):
        import datetime as dt
        if v is None:
            return None
        d = dt.datetime.fromisoformat(v)
        off = None if d.tzinfo is None else int(d.utcoffset().total_seconds())
        if off is None:
            raise Violation("date-naive", v)
        return (int(d.replace(microsecond=0).timestamp()), d.microsecond, off)

    # ---- manifests
    def _doc(self, path):
        import xml.etree.ElementTree as ET
        return ET.parse(path).getroot()

    def manifest_names(self, hist_rel):
        folder = os.path.join(self.p(hist_rel), "ascmhl")
        if not os.path.isdir(folder):
            return []
        return sorted(n for n in os.listdir(folder) if n.endswith(".mhl"))

    def folder_listing(self, rel):
        return sorted(os.listdir(self.p(rel)))

    def manifests(self, hist_rel):
        import xml.etree.ElementTree as ET
        out = []
        for name in self.manifest_names(hist_rel):
            try:
                out.append(obs.read_manifest(self._doc(os.path.join(self.p(hist_rel), "ascmhl", name)), name))
            except ET.ParseError as ex:
                raise Violation("manifest-unparsable", "%s: %s" % (name, ex))
        return out

    def read_manifest_at(self, rel):
        return obs.read_manifest(self._doc(self.p(rel)), os.path.basename(rel))

    def chain(self, hist_rel, name="ascmhl_chain.xml", folder="ascmhl"):
        import xml.etree.ElementTree as ET
        path = os.path.join(self.p(hist_rel), folder, name)
        if not os.path.exists(path):
            return None
        try:
            return obs.read_chain(self._doc(path))
        except ET.ParseError as ex:
            raise Violation("chain-unparsable", str(ex))

    def xml_files(self, rel=""):
        return [f for f in self.walk_files(rel) if f.endswith(".mhl") or f.endswith("ascmhl_chain.xml") or f.endswith("ascmhl_collection.xml")]

    def validate_xml(self, rel):
        """schema errors of one written file (lxml XMLSchema with the XSDs shipped in /repo/xsd)"""
        from lxml import etree
        if not hasattr(RealBackend, "_schemas"):
            xd = os.environ.get("VERIF_XSD_DIR", "/repo/xsd")
            RealBackend._schemas = (etree.XMLSchema(etree.parse(xd + "/ASCMHL.xsd")),
                                    etree.XMLSchema(etree.parse(xd + "/ASCMHLDirectory__combined.xsd")))
        try:
            doc = etree.parse(self.p(rel))
        except etree.XMLSyntaxError as ex:
            return ["not well-formed: %s" % ex]
        sch = RealBackend._schemas[0 if rel.endswith(".mhl") else 1]
        if sch.validate(doc):
            return []
        return [str(e) for e in sch.error_log][:5]

    def file_token(self, rel):
        b = self._bytes(rel)
        return (hashlib.sha256(b).hexdigest(), len(b))

    # ---- commands
    def argv(self, cmd, root="R", cwd=None, **o):
        rp = None if root is None else (self.p(root) if cwd is None else root)
        ap = lambda x: None if x is None else (x if cwd is not None else self.p(x))
        a = [cmd]
        if cmd in ("create", "flatten"):
            for k in ("author_name", "author_email", "author_phone", "author_role", "location", "comment"):
                if o.get(k) is not None:
                    a += ["--" + k, o[k]]
        if o.get("v"):
            a.append("-v")
        if cmd == "create":
            for h in o.get("h", ["xxh128"]):
                a += ["-h", h]
            if o.get("n"):
                a.append("-n")
            if o.get("dr"):
                a.append("-dr")
            for x in o.get("sf", ()):
                a += ["-sf", ap(x)]
        elif cmd == "verify":
            if o.get("dh"):
                a.append("-dh")
            if o.get("co"):
                a.append("-co")
            if o.get("ro"):
                a.append("-ro")
            if o.get("h"):
                a += ["-h", o["h"]]
            if o.get("sf") is not None:
                a += ["-sf", ap(o["sf"])]
            if o.get("pl") is not None:
                a += ["-pl", ap(o["pl"])]
        elif cmd == "info":
            for x in o.get("sf", ()):
                a += ["-sf", ap(x)]
        elif cmd == "flatten":
            if o.get("n"):
                a.append("-n")
        elif cmd == "hash":
            a += ["-h", o["h"], ap(o["file"])]
        elif cmd == "xsd-schema-check":
            if o.get("df"):
                a.append("-df")
            xd = os.environ.get("VERIF_XSD_DIR", "/repo/xsd")
            a += ["-xsd", xd + "/ASCMHLDirectory__combined.xsd" if o.get("df") else xd + "/ASCMHL.xsd"]
            a.append(ap(o["file"]))
        if cmd in ("create", "verify", "diff", "flatten"):
            for x in o.get("i", ()):
                a += ["-i", x]
            if o.get("ii") is not None:
                a += ["-ii", ap(o["ii"])]
        if cmd in ("create", "verify", "diff", "flatten") or (cmd == "info" and root is not None):
            a.append(rp)
        if cmd == "flatten":
            a.append(ap(o["dest"]))
        return a

    def run_killed(self, cmd, root, cwd, o):
        """run the command in a child process that is killed (os._exit) at its k-th file-system operation"""
        import subprocess, json as _json
        argv = self.argv(cmd, root, cwd, **{k: v for k, v in o.items() if k not in ("crash_at", "torn")})
        script = os.path.join(os.path.dirname(os.path.abspath(__file__)), "crashrun.py")
        env = dict(os.environ, TZ=self.tz, VERIF_CRASH_AT=str(o["crash_at"]), VERIF_CRASH_TORN="1" if o.get("torn") else "0",
                   VERIF_FREEZE=str(self.now), VERIF_TOOL=CMD_TOOL[cmd])
        p = subprocess.run([sys.executable, script] + argv, cwd=self.p(cwd) if cwd is not None else self.base, env=env,
                           capture_output=True, text=True, timeout=300)
        self.step += 1
        self.now += self.tick
        if p.returncode == 99:
            return Result("killed", "Crash", p.stdout.split("\n"), p.stderr.split("\n"), None)
        return Result(p.returncode, None if p.returncode == 0 else _exc_name_for_code(p.returncode), p.stdout.split("\n"), p.stderr.split("\n"), None)

    def run(self, cmd, root="R", cwd=None, **o):
        import datetime as dt
        import time
        from click.testing import CliRunner
        if o.get("crash_at") is not None:
            return self.run_killed(cmd, root, cwd, o)
        _no_network()
        from ascmhl.cli import ascmhl as cli1, ascmhl_debug as cli2
        import ascmhl.logger as LG
        LG.verbose_logging = False
        cli = cli1.mhltool_cli if CMD_TOOL[cmd] == "ascmhl" else cli2.mhldebugtool_cli
        argv = self.argv(cmd, root, cwd, **o)
        os.environ["TZ"] = self.tz
        time.tzset()
        old_cwd = os.getcwd()
        os.chdir(self.p(cwd) if cwd is not None else self.base)
        runner = CliRunner(mix_stderr=False)
        t_start = int(time.time())
        try:
            if self.clock == "freeze":
                from freezegun import freeze_time
                with freeze_time(dt.datetime.fromtimestamp(self.now, dt.timezone.utc).replace(microsecond=self.now_micro, tzinfo=None),
                                 tz_offset=dt.timedelta(seconds=getattr(self, "fixed_offset", 0))):
                    res = self._invoke(runner, cli, argv)
            else:
                res = self._invoke(runner, cli, argv)
        finally:
            os.chdir(old_cwd)
        self.last_window = (t_start, int(time.time()) + 1)
        exc = None
        if res.exception is not None and not isinstance(res.exception, SystemExit):
            exc = type(res.exception).__name__
        elif res.exit_code != 0:
            exc = _exc_name_for_code(res.exit_code)
        self.step += 1
        self.now += self.tick
        out = res.stdout.split("\n") if res.stdout else []
        err = res.stderr.split("\n") if res.stderr else []
        if out and out[-1] == "":
            out.pop()
        if err and err[-1] == "":
            err.pop()
        return Result(res.exit_code, exc, out, err, list(self.last_ops), res.exception)

    def _invoke(self, runner, cli, argv):
        mode = getattr(self, "listing", "sorted")
        if mode != "os" and self.perm is None:
            self.perm = _ListingOrder(mode)
            try:
                return self._invoke(runner, cli, argv)
            finally:
                self.perm = None
        if not _AUDIT["installed"]:
            sys.addaudithook(_audit_hook)
            _AUDIT["installed"] = True
        _AUDIT["ops"] = []
        _AUDIT["on"] = True
        try:
            if self.perm is not None:
                with self.perm:
                    return runner.invoke(cli, argv)
            return runner.invoke(cli, argv)
        finally:
            _AUDIT["on"] = False
            self.last_ops = [o for o in _AUDIT["ops"] if any(isinstance(x, str) and x.startswith(self.tmp) for x in o[1:])]


def order_names(names, mode):
    names = sorted(names)
    if mode == "reversed":
        return names[::-1]
    if mode == "rotated":
        return names[1:] + names[:1]
    if mode == "interleaved":
        return names[1::2] + names[0::2]
    return names


class _ListingOrder:
    """makes the operating system enumerate directory entries in a chosen order (os.listdir / os.walk / os.scandir callers)"""

    def __init__(self, mode):
        self.mode = mode

    def __enter__(self):
        mode = self.mode
        self.real_listdir, self.real_walk = os.listdir, os.walk
        real_listdir = self.real_listdir

        def listdir(p="."):
            return order_names(real_listdir(p), mode)

        def walk(top, topdown=True, onerror=None, followlinks=False):
            try:
                names = listdir(top)
            except OSError:
                return
            dirs = [n for n in names if os.path.isdir(os.path.join(top, n)) and (followlinks or not os.path.islink(os.path.join(top, n)) or True)]
            files = [n for n in names if n not in dirs]
            if topdown:
                yield top, dirs, files
            for d in list(dirs):
                if followlinks or not os.path.islink(os.path.join(top, d)):
                    yield from walk(os.path.join(top, d), topdown, onerror, followlinks)
            if not topdown:
                yield top, dirs, files

        os.listdir, os.walk = listdir, walk
        return self

    def __exit__(self, *a):
        os.listdir, os.walk = self.real_listdir, self.real_walk
        return False


_EXC_CODES = None


def _exc_name_for_code(code):
    global _EXC_CODES
    if _EXC_CODES is None:
        import ascmhl.errors as E
        import click
        _EXC_CODES = {v.exit_code: k for k, v in vars(E).items()
                      if isinstance(v, type) and issubclass(v, click.ClickException) and v is not click.ClickException}
    return _EXC_CODES.get(code, "exit%d" % code)


_NONET = [False]


def _no_network():
    """the update checker thread must not try to reach the network during replays"""
    if _NONET[0]:
        return
    import requests

    def refuse(*a, **k):
        raise requests.exceptions.ConnectionError("network disabled in replay")

    requests.get = refuse
    _NONET[0] = True
