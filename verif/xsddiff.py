"""Differential test of xsdmini against lxml's XMLSchema on the repo's example files and mutated variants."""
import copy
import glob
import os
import xml.etree.ElementTree as ET

from . import xsdmini


def _real_schemas():
    from lxml import etree
    xd = xsdmini.XSD_DIR
    m = etree.XMLSchema(etree.parse(xd + "/ASCMHL.xsd"))
    d = etree.XMLSchema(etree.parse(xd + "/ASCMHLDirectory__combined.xsd"))
    return m, d


def variants(root, limit=400):
    """mutated copies of an ET tree: delete / duplicate / swap elements, delete / garble attributes, garble text"""
    out = []
    paths = []

    def walk(el, path):
        for i, c in enumerate(list(el)):
            paths.append(path + [i])
            walk(c, path + [i])

    walk(root, [])

    def get(r, path):
        for i in path:
            r = list(r)[i]
        return r

    for path in paths:
        if len(out) >= limit:
            break
        for kind in ("del", "dup", "swap", "delattr", "badattr", "badtext", "addattr", "addchild"):
            r = copy.deepcopy(root)
            parent = get(r, path[:-1])
            el = list(parent)[path[-1]]
            if kind == "del":
                parent.remove(el)
            elif kind == "dup":
                parent.insert(path[-1], copy.deepcopy(el))
            elif kind == "swap":
                if path[-1] + 1 >= len(list(parent)):
                    continue
                sib = list(parent)[path[-1] + 1]
                parent.remove(sib)
                parent.insert(path[-1], sib)
            elif kind == "delattr":
                if not el.attrib:
                    continue
                del el.attrib[sorted(el.attrib)[0]]
            elif kind == "badattr":
                if not el.attrib:
                    continue
                el.attrib[sorted(el.attrib)[0]] = "x y"
            elif kind == "badtext":
                el.text = "!!"
            elif kind == "addattr":
                el.attrib["bogus"] = "1"
            elif kind == "addchild":
                ET.SubElement(el, el.tag.split("}")[0] + "}bogus" if "}" in el.tag else "bogus")
            out.append((kind, "/".join(map(str, path)), r))
    return out


def run(max_files=6, per_file=250):
    import io
    from lxml import etree
    ms, ds = _real_schemas()
    files = sorted(glob.glob(os.path.dirname(xsdmini.XSD_DIR) + "/examples/scenarios/Output/**/*.mhl", recursive=True))[:max_files]
    files += sorted(glob.glob(os.path.dirname(xsdmini.XSD_DIR) + "/examples/scenarios/Output/**/ascmhl_chain.xml", recursive=True))[:2]
    n = 0
    disagreements = []
    for f in files:
        root = ET.parse(f).getroot()
        schema = ds if root.tag.endswith("ascmhldirectory") else ms
        cases = [("orig", "", root)] + variants(root, per_file)
        for kind, where, r in cases:
            data = ET.tostring(r)
            try:
                real = bool(schema.validate(etree.parse(io.BytesIO(data))))
            except etree.XMLSyntaxError:
                continue
            mine = not xsdmini.validate_root(r)
            n += 1
            if real != mine:
                disagreements.append((os.path.basename(f), kind, where, real, mine, xsdmini.validate_root(r)[:2]))
    return n, disagreements


if __name__ == "__main__":
    n, dis = run()
    print("cases", n, "disagreements", len(dis))
    for d in dis[:25]:
        print(d)
