"""Child process for C15 replays: runs the real CLI and kills itself (os._exit(99)) at the k-th file-system operation.
Operations are counted like the model's operation log: mkdir, open-for-write, each write(), flush(), close(), replace/rename, remove.
Files opened for writing get an explicit buffer with the semantics of the model: data reaches the (unbuffered) file at flush() / close()."""
import builtins
import datetime
import os
import sys

CRASH_AT = int(os.environ["VERIF_CRASH_AT"])
TORN = os.environ.get("VERIF_CRASH_TORN") == "1"
COUNT = [0]


def tick(kind):
    if COUNT[0] == CRASH_AT:
        sys.stdout.flush()
        os._exit(99)
    COUNT[0] += 1


class W:
    """buffered like a real file object: data reaches the file at flush() / close(); a kill loses what is still buffered"""

    def __init__(self, f):
        self.f = f
        self.closed = False
        self.buf = []

    def write(self, b):
        if COUNT[0] == CRASH_AT:
            os._exit(99)
        COUNT[0] += 1
        self.buf.append(bytes(b))
        if sum(len(x) for x in self.buf) > 8192:
            self._out()
        return len(b)

    def _out(self, upto=None):
        data = b"".join(self.buf)
        self.buf = []
        self.f.write(data if upto is None else data[:upto])

    def _sync(self):
        if COUNT[0] == CRASH_AT:
            n = sum(len(x) for x in self.buf)
            if TORN and n > 1:
                self._out(n // 2)
            os._exit(99)
        COUNT[0] += 1
        self._out()

    def flush(self):
        self._sync()

    def close(self):
        if not self.closed:
            self._sync()
            self.closed = True
            self.f.close()

    def __del__(self):
        try:
            if not self.closed:
                self._out()
                self.f.close()
        except Exception:
            pass

    def __enter__(self):
        return self

    def __exit__(self, *a):
        self.close()
        return False

    def __getattr__(self, k):
        return getattr(self.f, k)


_open = builtins.open


def open_(path, mode="r", *a, **k):
    if isinstance(path, (str, bytes, os.PathLike)) and any(c in mode for c in "wxa+") and "b" in mode:
        tick("open_w")
        return W(_open(path, mode, buffering=0))
    return _open(path, mode, *a, **k)


def wrap(name):
    real = getattr(os, name)

    def f(*a, **k):
        tick(name)
        return real(*a, **k)

    setattr(os, name, f)


def main():
    import requests

    def refuse(*a, **k):
        raise requests.exceptions.ConnectionError("network disabled")

    requests.get = refuse
    from freezegun import freeze_time
    import time
    time.tzset()
    t = datetime.datetime.fromtimestamp(int(os.environ["VERIF_FREEZE"]), datetime.timezone.utc)
    with freeze_time(t):
        from ascmhl.cli import ascmhl as cli1, ascmhl_debug as cli2
        cli = cli1.mhltool_cli if os.environ["VERIF_TOOL"] == "ascmhl" else cli2.mhldebugtool_cli
        builtins.open = open_
        for n in ("mkdir", "replace", "rename", "remove", "unlink", "makedirs"):
            wrap(n)
        try:
            cli.main(args=sys.argv[1:], standalone_mode=True)
        except SystemExit as e:
            sys.stdout.flush()
            os._exit(e.code if isinstance(e.code, int) else 1)


main()
