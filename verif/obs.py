"""Independent reader for manifests / chain files: turns an element tree (model `El` or xml.etree Element)
into plain observation objects.  Shares no code with ascmhl's own parser."""

FORMATS = ["c4", "md5", "sha1", "xxh128", "xxh3", "xxh64"]


def _tag(el):
    t = el.tag
    return t.split("}", 1)[-1] if isinstance(t, str) else t


def _kids(el):
    return list(el.children) if hasattr(el, "children") else list(el)


def _find(el, tag):
    for c in _kids(el):
        if _tag(c) == tag:
            return c
    return None


def _findall(el, tag):
    return [c for c in _kids(el) if _tag(c) == tag]


class Entry:
    def __init__(self, fmt, digest, action, hashdate, structure=None):
        self.fmt, self.digest, self.action, self.hashdate, self.structure = fmt, digest, action, hashdate, structure

    def __repr__(self):
        return "Entry(%s,%r,%s)" % (self.fmt, self.digest, self.action)


class Record:
    def __init__(self):
        self.kind = None  # "file" | "dir"
        self.path = None
        self.size = None  # raw attribute value (str / DecStr) or None
        self.lastmod = None
        self.entries = []
        self.previous_path = None
        self.child_tags = []

    def entry(self, fmt):
        for e in self.entries:
            if e.fmt == fmt:
                return e
        return None

    def __repr__(self):
        return "Record(%s %s %s)" % (self.kind, self.path, self.entries)


class Manifest:
    def __init__(self):
        self.file = None
        self.version = None
        self.creator = {}
        self.authors = []
        self.process = None
        self.roothash = None  # list of Entry (digest=content, structure=structure) or None
        self.ignore = None  # list or None (element absent)
        self.has_hashes = False
        self.records = []
        self.references = None  # list of (path, c4) or None
        self.top_tags = []

    def files(self):
        return [r for r in self.records if r.kind == "file"]

    def dirs(self):
        return [r for r in self.records if r.kind == "dir"]

    def record(self, path):
        rs = [r for r in self.records if r.path == path]
        return rs[0] if rs else None


def _dir_entries(el):
    content, structure = _find(el, "content"), _find(el, "structure")
    out = []
    smap = {}
    if structure is not None:
        for c in _kids(structure):
            smap[_tag(c)] = c.text
    if content is not None:
        for c in _kids(content):
            out.append(Entry(_tag(c), c.text, c.attrib.get("action"), c.attrib.get("hashdate"), smap.get(_tag(c))))
    for k in smap:
        if not any(e.fmt == k for e in out):
            out.append(Entry(k, None, None, None, smap[k]))
    return out


def read_manifest(root, file=None):
    m = Manifest()
    m.file = file
    if _tag(root) != "hashlist":
        raise ValueError("root element is %s" % _tag(root))
    m.version = root.attrib.get("version")
    m.top_tags = [_tag(c) for c in _kids(root)]
    ci = _find(root, "creatorinfo")
    if ci is not None:
        for c in _kids(ci):
            t = _tag(c)
            if t == "author":
                m.authors.append({"name": c.text, "role": c.attrib.get("role"), "email": c.attrib.get("email"),
                                  "phone": c.attrib.get("phone")})
            elif t == "tool":
                m.creator["tool"] = c.text
                m.creator["toolversion"] = c.attrib.get("version")
            else:
                m.creator[t] = c.text
        m.creator["_order"] = [_tag(c) for c in _kids(ci)]
    pi = _find(root, "processinfo")
    if pi is not None:
        p = _find(pi, "process")
        m.process = p.text if p is not None else None
        rh = _find(pi, "roothash")
        if rh is not None:
            m.roothash = _dir_entries(rh)
        ig = _find(pi, "ignore")
        if ig is not None:
            m.ignore = [c.text for c in _findall(ig, "pattern")]
    hs = _find(root, "hashes")
    if hs is not None:
        m.has_hashes = True
        for h in _kids(hs):
            r = Record()
            t = _tag(h)
            r.child_tags = [_tag(c) for c in _kids(h)]
            p = _find(h, "path")
            if p is not None:
                r.path = p.text
                r.size = p.attrib.get("size")
                r.lastmod = p.attrib.get("lastmodificationdate")
            pp = _find(h, "previousPath")
            if pp is not None:
                r.previous_path = pp.text
            if t == "hash":
                r.kind = "file"
                for c in _kids(h):
                    if _tag(c) in FORMATS or _tag(c) == "xxh32":
                        r.entries.append(Entry(_tag(c), c.text, c.attrib.get("action"), c.attrib.get("hashdate")))
            elif t == "directoryhash":
                r.kind = "dir"
                r.entries = _dir_entries(h)
            else:
                r.kind = t
            m.records.append(r)
    rf = _find(root, "references")
    if rf is not None:
        m.references = []
        for c in _findall(rf, "hashlistreference"):
            p, d = _find(c, "path"), _find(c, "c4")
            m.references.append((p.text if p is not None else None, d.text if d is not None else None))
    return m


class ChainEntry:
    def __init__(self, seq, path, c4):
        self.seq, self.path, self.c4 = seq, path, c4

    def __repr__(self):
        return "ChainEntry(%s,%s)" % (self.seq, self.path)


def read_chain(root):
    if _tag(root) != "ascmhldirectory":
        raise ValueError("root element is %s" % _tag(root))
    out = []
    for h in _findall(root, "hashlist"):
        p, d = _find(h, "path"), _find(h, "c4")
        out.append(ChainEntry(h.attrib.get("sequencenr"), p.text if p is not None else None,
                              d.text if d is not None else None))
    return out
