"""C12 - Ignore patterns exclude consistently and only ever accumulate."""
import posixpath
from ..runner import Harness
from ..pse import truth
from .. import pse
from . import common as cm
from .c02 import check_records, new_manifests
from .c07 import check_dirhashes

DEFAULTS = cm.DEFAULT_IGNORES


def accumulate(sym):
    """MHLIgnoreSpec(existing, new list, new file): previous in order, then new ones in order of first appearance, no duplicates;
    defaults exactly when there is no previous list. Pattern identity is symbolic (ids compared by ==)."""
    from ascmhl.ignore import MHLIgnoreSpec, default_ignore_list
    from ..tokens import Opaque
    from .. import tokens
    if sym.symbolic:
        tokens.reset()
        mk = lambda name: Opaque(sym.int(name, 0, 3))
        ident = lambda p: p.ident
    else:
        mk = lambda name: "pat%d" % sym.int(name, 0, 3)
        ident = lambda p: int(p[3:])
    nprev = sym.choose("n_previous", [0, 1, 2, 3])
    prev = [mk("prev%d" % i) for i in range(nprev)]
    for i in range(nprev):
        for j in range(i):
            sym.assume(ident(prev[i]) != ident(prev[j]))  # a recorded list never contains duplicates (inductive invariant)
    new = [mk("new%d" % i) for i in range(sym.choose("n_new", [0, 1, 2, 3]))]
    spec = MHLIgnoreSpec(prev if prev or sym.flag("empty_list_instead_of_none") else None, new)
    got = spec.get_pattern_list()
    exp = list(prev) if prev else list(default_ignore_list())
    for p in new:
        if not any(pse.truth(p == q) for q in exp):
            exp.append(p)
    pse.require(len(got) == len(exp), "accumulated-length", "%d vs %d (previous %d, new %d)" % (len(got), len(exp), nprev, len(new)))
    for g, e in zip(got, exp):
        pse.require(pse.truth(g == e), "accumulated-order", "")
    for i in range(len(got)):
        for j in range(i):
            pse.require(not pse.truth(got[i] == got[j]), "accumulated-duplicate", "")
    # get_pattern_list hands out a copy: mutating it must not change the spec
    got.append("zzz")
    pse.require(len(spec.get_pattern_list()) == len(exp), "pattern-list-is-copy", "")


def exclusion(tier):
    PATS = ["*.tmp", "junk.bin", "d/e", "cache/", "/a.log", "d/e/deep.txt"]

    def fn(b, sym):
        files = {"R/a.txt": 1, "R/a.log": 2, "R/d/b.txt": 3, "R/d/x.tmp": 4, "R/d/e/deep.txt": 5, "R/d/a.log": 6, "R/junk.bin": 7, "R/d/junk.bin": 8,
                 "R/cache/c1.dat": 9, "R/.DS_Store": 10, "R/d/.DS_Store": 11}
        for f, c in files.items():
            b.mkfile(f, c)
        nested = sym.flag("nested_history_at_d")
        child_pats = []
        if nested:
            child_pats = sym.choose("child_patterns", [[], ["*.bak"]])
            r = b.run("create", root="R/d", h=["md5"], i=child_pats)
            b.require(r.exit == 0, "setup-create", str(r))
        p1 = sym.choose("pattern1", PATS)
        via = sym.choose("given_via", ["-i", "-i twice", "-ii"])
        p2 = sym.choose("pattern2", [p for p in PATS if p != p1][:2])
        if via == "-i":
            kw, given = dict(i=[p1]), [p1]
        elif via == "-i twice":
            kw, given = dict(i=[p1, p2, p1]), [p1, p2]
        else:
            b.write_text("specs/ignore.txt", "%s\n\n%s\n" % (p1, p2))
            kw, given = dict(ii="specs/ignore.txt"), [p1, p2]
        eff = DEFAULTS + given
        ignored = cm.make_ignored(eff, "R")
        roots = ["R"] + (["R/d"] if nested else [])
        names_before = {r: b.manifest_names(r) for r in roots}
        r = b.run("create", root="R", h=["md5"], **kw)
        b.require(r.exit == 0 and r.exc is None, "create-exit-0", "%s %s" % (given, r))
        _, news = new_manifests(b, None, names_before, "R")
        tag = "create %s %s: " % (via, given)
        d_ignored = ignored("R/d", True)
        if nested and d_ignored:
            return  # an ignored nested root: outside the claim (C08)
        check_records(b, "R", ["md5"], roots, news, cm.expected_records(b, "R", roots, ignored), tag=tag)
        # pattern lists: previous + new, nested generations also carry the parent's patterns
        m = news["R"][0]
        b.require(m.ignore == eff, "pattern-list-root", "%s%r vs %r" % (tag, m.ignore, eff))
        if nested:
            mc = news["R/d"][0]
            exp_child = DEFAULTS + child_pats + [p for p in eff if p not in DEFAULTS + child_pats]
            b.require(mc.ignore == exp_child, "pattern-list-nested", "%s%r vs %r" % (tag, mc.ignore, exp_child))
        if not nested:
            check_dirhashes(b, m, "R", ["md5"], ignored, tag)
        # editing / adding / removing ignored entries never matters; patterns persist without being repeated
        victims = [f for f in sorted(files) if ignored(f) and not (nested and cm.under(f, "R/d") and False)]
        edit = sym.choose("ignored_edit", ["alter", "delete", "add", "none"])
        if victims and edit == "alter":
            b.alter(victims[0], 99)
        elif victims and edit == "delete":
            b.delete(victims[-1])
        elif edit == "add":
            extra = {"*.tmp": "R/d/e/new.tmp", "junk.bin": "R/cache/junk.bin", "d/e": "R/d/e/more.txt", "cache/": "R/cache/c2.dat", "/a.log": None, "d/e/deep.txt": None}[p1]
            if extra and ignored(extra):
                b.mkfile(extra, 98)
            b.mkfile("R/d/e/.DS_Store", 97) if b.exists("R/d/e") else None
        # directory hashes recorded by the nested history before the pattern existed legitimately include entries that are ignored now
        child_predates_pattern = nested and any(ignored(f) and cm.under(f, "R/d") for f in files)
        for cmd in ("verify", "verify-dh", "diff", "create", "create-sf-folder"):
            if cmd == "verify-dh" and child_predates_pattern:
                continue
            if cmd == "verify":
                r = b.run("verify", root="R")
            elif cmd == "verify-dh":
                r = b.run("verify", root="R", dh=True)
            elif cmd == "diff":
                r = b.run("diff", root="R")
            elif cmd == "create":
                names_before = {x: b.manifest_names(x) for x in roots}
                r = b.run("create", root="R", h=["md5"])
            else:
                names_before = {x: b.manifest_names(x) for x in roots}
                r = b.run("create", root="R", h=["md5"], sf=["R/d"])
            b.require(r.exit == 0 and r.exc is None, "ignored-change-no-failure", "%s%s after %s of ignored entries: exit %s %s | %s"
                      % (tag, cmd, edit, r.exit, r.exc, [l for l in r.err][:3]))
            for l in r.out + r.err:
                if "missing" in l or "found new file" in l:
                    b.require(False, "ignored-path-reported", "%s%s: %s" % (tag, cmd, l))
            if cmd == "create":
                _, news2 = new_manifests(b, None, names_before, "R")
                check_records(b, "R", ["md5"], roots, news2, cm.expected_records(b, "R", roots, ignored), tag=tag + "2nd create: ")
                b.require(news2["R"][0].ignore == eff, "pattern-list-persists", "%s%r" % (tag, news2["R"][0].ignore))
            elif cmd == "create-sf-folder":
                _, news3 = new_manifests(b, None, names_before, "R")
                exp = {x: {} for x in roots}
                for f in b.walk_files("R/d"):
                    if "/ascmhl/" in f or ignored(f):
                        continue
                    own = cm.owner_history(f, roots, "R")
                    exp[own][cm.rel_to(f, own)] = "file"
                check_records(b, "R", ["md5"], roots, news3, exp, tag=tag + "create -sf R/d: ")
                for hr in roots:
                    if news3.get(hr):
                        # also a generation that only references a child generation keeps the accumulated patterns
                        want = eff if hr == "R" else DEFAULTS + child_pats + [p for p in eff if p not in DEFAULTS + child_pats]
                        b.require(news3[hr][0].ignore == want, "pattern-list-sf-generation", "%s%s: %r vs %r" % (tag, hr, news3[hr][0].ignore, want))
    return fn


def renamed_then_ignored(b, sym):
    """a file is renamed (recorded with -dr); later a pattern matches its new name only: it is neither missing nor new"""
    b.mkfile("R/a.txt", 1)
    b.mkfile("R/d/b.txt", 2)
    r = b.run("create", root="R", h=["md5"])
    b.require(r.exit == 0, "setup-create", str(r))
    new = sym.choose("new_name", ["R/a.tmp", "R/d/a_moved.tmp"])
    b.rename("R/a.txt", new)
    r = b.run("create", root="R", h=["md5"], dr=True)
    b.require(r.exit == 0, "setup-create", "create -dr: %s" % r)
    via = sym.choose("pattern_via", ["-i on the command", "persisted by a create"])
    kw = {"i": ["*.tmp"]}
    if via != "-i on the command":
        r = b.run("create", root="R", h=["md5"], i=["*.tmp"])
        b.require(r.exit == 0 and r.exc is None, "ignored-change-no-failure", "create -i *.tmp after the rename: %s | %s" % (r, r.err[:3]))
        kw = {}
    if sym.flag("ignored_file_edited"):
        b.alter(new, 9)
    for cmd in ("verify", "diff", "create"):
        r = b.run(cmd, root="R", **kw) if cmd != "create" else b.run("create", root="R", h=["md5"], **kw)
        b.require(r.exit == 0 and r.exc is None, "ignored-change-no-failure", "%s with *.tmp ignored after a.txt was renamed to %s: exit %s | %s"
                  % (cmd, cm.rel_to(new, "R"), r.exit, (r.err + r.out)[:3]))
        for l in r.out + r.err:
            b.require("missing" not in l and "found new file" not in l, "ignored-path-reported", "%s: %s" % (cmd, l))


def late_child(b, sym):
    """a nested history that appears (is sealed on its own, or copied in) after the parent already carries patterns: the generation
    the next parent run writes into it contains all of the parent's patterns, old and new, and the child's own"""
    b.mkfile("R/a.txt", 1)
    b.mkfile("R/x.tmp", 2)
    b.mkfile("R/N/n.txt", 3)
    b.mkfile("R/N/cache.tmp", 4)
    b.mkfile("R/N/old.bak", 5)
    first = sym.choose("parent_first_patterns", [["*.tmp"], ["*.tmp", "*.log"]])
    r = b.run("create", root="R", h=["md5"], i=first)
    b.require(r.exit == 0 and r.exc is None, "create-exit-0", str(r))
    own = sym.choose("child_own_patterns", [[], ["*.dat"]])
    r = b.run("create", root="R/N", h=["md5"], i=own)  # a stand-alone run inside the folder: it knows nothing of the parent
    b.require(r.exit == 0 and r.exc is None, "create-exit-0", str(r))
    second = sym.choose("parent_second_patterns", [[], ["*.bak"]])
    names_before = {x: b.manifest_names(x) for x in ("R", "R/N")}
    r = b.run("create", root="R", h=["md5"], i=second)
    b.require(r.exit in (0, 10) and (r.exc is None or r.exit == 10), "create-exit-0", "second parent run: %s" % r)
    roots, news = new_manifests(b, None, names_before, "R")
    b.require(len(news.get("R/N", [])) == 1 and len(news["R"]) == 1, "one-new-manifest", str({k: len(v) for k, v in news.items()}))
    parent_list = news["R"][0].ignore or []
    child_list = news["R/N"][0].ignore or []
    b.require(parent_list == DEFAULTS + first + second, "pattern-list-persists", "parent: %r" % parent_list)
    for p_ in first + second + own:
        b.require(p_ in child_list, "nested-generation-has-parent-patterns", "the child generation written by the parent run lists %r, lacks %r" % (child_list, p_))
    b.require(len(child_list) == len(set(child_list)), "pattern-list-no-duplicates", repr(child_list))
    # and they are in force there from now on: a stand-alone run in the child records none of the excluded files
    names_before = {"R/N": b.manifest_names("R/N")}
    r = b.run("create", root="R/N", h=["md5"])
    m = [x for x in b.manifests("R/N") if x.file not in names_before["R/N"]]
    b.require(len(m) == 1, "one-new-manifest", "stand-alone child run: %s" % r)
    got = sorted(rec.path for rec in m[0].files())
    want = ["n.txt"] + (["old.bak"] if not second else [])
    b.require(got == want, "ignored-path-recorded", "stand-alone child run records %s, expected %s" % (got, want))


def unicode_pattern(b, sym):
    """a pattern and the names it matches in decomposed spelling (as macOS volumes deliver names): once the pattern is read back from
    the previous generation it still excludes the same entries and is written out unchanged"""
    nfd = sym.choose("spelling", ["Re\u0301el", "R\u00e9el"])  # decomposed | composed
    b.mkfile("R/a.txt", 1)
    b.mkfile("R/%s 1.tmp" % nfd, 2)
    b.mkfile("R/d/%s 2.tmp" % nfd, 3)
    pat = sym.choose("pattern", ["%s*" % nfd, "%s 1.tmp" % nfd])
    nested = sym.flag("nested_history_at_d")
    if nested:
        r = b.run("create", root="R/d", h=["md5"])
        b.require(r.exit == 0, "setup-create", str(r))
    r = b.run("create", root="R", h=["md5"], i=[pat])
    b.require(r.exit == 0 and r.exc is None, "create-exit-0", str(r))
    first = b.manifests("R")[-1].ignore
    for cmd in ("verify", "diff", "create"):
        r = b.run(cmd, root="R") if cmd != "create" else b.run("create", root="R", h=["md5"])
        b.require(r.exit == 0 and r.exc is None, "ignored-change-no-failure", "%s with stored pattern %r: exit %s | %s" % (cmd, pat, r.exit, (r.err + r.out)[:3]))
    m = b.manifests("R")[-1]
    b.require(m.ignore == first, "pattern-list-persists", "%r vs %r" % (m.ignore, first))
    got = sorted(rec.path for rec in m.files())
    want = ["a.txt"] + ([] if nested else (["d/%s 2.tmp" % nfd] if pat.endswith("1.tmp") else [])) if True else None
    b.require(all(not p.endswith("1.tmp") for p in got), "ignored-path-recorded", "second generation records %s" % got)
    if pat.endswith("*"):
        b.require(all(not p.endswith(".tmp") for p in got), "ignored-path-recorded", "second generation records %s" % got)


def long_history(b, sym):
    """patterns accumulate over more than nine generations"""
    b.mkfile("R/a.txt", 1)
    b.mkfile("R/d/x.tmp", 2)
    b.mkfile("R/d/y.bak", 3)
    nested = sym.flag("nested_history_at_d")
    if nested:
        r = b.run("create", root="R/d", h=["md5"])
    late = sym.choose("pattern_added_in_generation", [9, 10, 11])
    eff = list(DEFAULTS)
    for g in range(1, 13):
        pats = []
        if g == 3:
            pats = ["*.bak"]
        if g == late:
            pats = ["*.tmp"]
        names_before = {x: b.manifest_names(x) for x in (["R", "R/d"] if nested else ["R"])}
        r = b.run("create", root="R", h=["md5"], i=pats)
        eff += [p for p in pats if p not in eff]
        b.require(r.exit == 0 and r.exc is None, "create-exit-0", "generation %d: %s" % (g, r))
        roots, news = new_manifests(b, None, names_before, "R")
        b.require(news["R"][0].ignore == eff, "pattern-list-persists", "generation %d: %r vs %r" % (g, news["R"][0].ignore, eff))
        ignored = cm.make_ignored(eff, "R")
        check_records(b, "R", ["md5"], roots, news, cm.expected_records(b, "R", roots, ignored), tag="generation %d: " % g)
    for cmd in ("verify", "diff"):
        r = b.run(cmd, root="R")
        b.require(r.exit == 0, "ignored-change-no-failure", "%s after 12 generations: %s" % (cmd, r))


def _harnesses(tier):
    out = ["gitwildmatch semantics themselves (pathspec library, run for real on concrete paths)", "patterns that exclude a nested history root",
           "negated patterns (!x) other than the ordered pair of the tour"]
    return [
        Harness("c12-accumulate", accumulate, mode="unit", frontier=4, budget_s=600,
                what="MHLIgnoreSpec with 0-3 previous and 0-3 new patterns of symbolic identity: result = previous (or defaults) + new in order of "
                     "first appearance, no duplicates",
                bounds={"previous": "0-3 distinct", "new": "0-3 (duplicates allowed)", "identities": "4 values, compared symbolically"}, outside=out),
        Harness("c12-renamed", renamed_then_ignored, frontier=4, budget_s=600,
                what="a file renamed (recorded with -dr) to a name that a later pattern ignores: verify / diff / create report it neither missing nor new",
                bounds={"names": 2, "pattern": "-i on every command | persisted"}, outside=out),
        Harness("c12-late-child", late_child, frontier=4, budget_s=600,
                what="a nested history sealed on its own after the parent already carries patterns; a second parent run (with or without new patterns): "
                     "the child generation it writes lists the parent's old and new patterns and the child's own; a later stand-alone child run obeys them",
                bounds={"parent patterns": "1-2 first, 0-1 later", "child patterns": "0-1"}, outside=out),
        Harness("c12-unicode", unicode_pattern, frontier=4, budget_s=600,
                what="a pattern with a non-ASCII character in decomposed or composed spelling, matching names in the same spelling: still in force and "
                     "unchanged after it was read back from the previous generation (verify / diff / create)",
                bounds={"spellings": 2, "patterns": 2}, outside=out),
        Harness("c12-long", long_history, frontier=3, budget_s=900,
                what="12 generations (flat or with a nested history), patterns added in generation 3 and in generation 9 / 10 / 11: lists and exclusions persist",
                bounds={"generations": 12}, outside=out),
        Harness("c12-exclusion", exclusion(tier), frontier=6, budget_s=2400,
                what="tree with entries matching 6 pattern kinds (glob, base name, path, directory, anchored) + .DS_Store, flat or with a nested history; "
                     "patterns via -i, repeated -i, -ii; then edits of ignored entries and verify / verify -dh / diff / create / create -sf",
                bounds={"patterns": ["*.tmp", "junk.bin", "d/e", "cache/", "/a.log", "d/e/deep.txt"], "given via": "-i | -i x3 with duplicate | -ii file with blank line",
                        "generations": 3}, outside=out),
    ]


def harnesses(tier):
    from . import tour
    return list(_harnesses(tier)) + tour.harnesses(tier, "C12")
