"""C19 - info reports the recorded history truthfully."""
import posixpath
import re
from ..runner import Harness
from ..pse import truth
from . import common as cm

GEN_RE = re.compile(r"^  Generation (\d+) \((.*?)\)(.*)$")


def parse_info(b, r):
    """-> {history root (rel) : [(generation, date)]} from `info` output"""
    blocks, cur = {}, None
    for l in r.out:
        m = re.match(r"^Info with history at path: (.+)$", l)
        if m:
            cur = m.group(1)
            blocks.setdefault(cur, [])
            continue
        m = re.search(r"Child History at (.+):$", l)
        if m:
            cur = m.group(1)
            blocks.setdefault(cur, [])
            continue
        m = GEN_RE.match(l)
        if m and cur is not None:
            blocks[cur].append((int(m.group(1)), m.group(2)))
    return blocks


def scenario(tier):
    def fn(b, sym):
        files = {"R/s.txt": 1, "R/A/a1.txt": 2, "R/A/AA/aa1.txt": 3, "R/B/b1.txt": 4, "R/A/AA_proxy/p.mov": 5, "R/A_notes.txt": 6}
        for f, c in files.items():
            b.mkfile(f, c)
        layout = sym.choose("layout", [[], ["R/A/AA"], ["R/A", "R/B"], ["R/A/AA", "R/A"]])
        for c in layout:
            r = b.run("create", root=c, h=["md5"])
            b.require(r.exit == 0, "setup-create", str(r))
        gens = sym.choose("root_generations", [1, 2, 3] if tier != "quick" else [1, 2])
        ign = ["B"] if sym.flag("root_ignores_folder_B") else []
        for g in range(gens):
            if g == 1 and sym.flag("alter_before_gen2"):
                b.alter("R/A/AA/aa1.txt", 33)
            fm = sym.choose("fmt%d" % g, [["md5"], ["xxh64", "c4"], ["sha1"]])
            if g > 0 and sym.flag("sf%d" % g):
                r = b.run("create", root="R", h=fm, sf=["R/A/AA/aa1.txt"])
            else:
                r = b.run("create", root="R", h=fm, i=ign)
            b.require(r.exit in (0, 11), "setup-create", str(r))
        roots = sorted(set(layout + ["R"]))
        # ---- info on the folder
        r = b.run("info", root="R")
        b.require(r.exit == 0 and r.exc is None, "info-exit-0", str(r))
        blocks = parse_info(b, r)
        b.require(sorted(blocks) == sorted(b.p(x) for x in roots), "info-lists-every-history", "%s vs %s" % (sorted(blocks), roots))
        for hr in roots:
            ms = b.manifests(hr)
            want = [(int(m.file[:4]), m.creator.get("creationdate")) for m in ms]
            got = blocks[b.p(hr)]
            b.require([g for g, _ in got] == [g for g, _ in want], "info-generations", "%s: %s vs %s" % (hr, got, want))
            b.require([d for _, d in got] == [d for _, d in want], "info-creation-dates", "%s: %s vs %s" % (hr, got, want))
            b.require([g for g, _ in got] == sorted(g for g, _ in got), "info-ascending", str(got))
        # ---- info -sf FILE, nearest enclosing history found by searching upwards / given explicitly
        target = sym.choose("sf_target", sorted(files))
        owner = cm.owner_history(target, roots, "R")
        for explicit in (False, True):
            r = b.run("info", root=owner if explicit else None, sf=[target])
            b.require(r.exit == 0 and r.exc is None, "info-sf-exit-0", "%s explicit=%s: %s" % (target, explicit, r))
            lines = [l for l in r.out if GEN_RE.match(l)]
            want = []
            for m in b.manifests(owner):
                rec = m.record(cm.rel_to(target, owner))
                if rec is None:
                    continue
                for e in rec.entries:
                    want.append((int(m.file[:4]), m.creator.get("creationdate"), e.fmt, e.digest, e.action))
            b.require(len(lines) == len(want), "info-sf-one-line-per-digest", "%s: %d lines, %d digests recorded | %s" % (target, len(lines), len(want), lines[:3]))
            for l, w in zip(lines, want):
                mm = GEN_RE.match(l)
                rest = mm.group(3)
                b.require(int(mm.group(1)) == w[0] and mm.group(2) == w[1], "info-sf-generation", "%r vs %r" % (l, w[:2]))
                b.require(rest.startswith(" %s: " % w[2]) and rest.rstrip().endswith("(%s)" % w[4]), "info-sf-format-action", "%r vs %s %s" % (l, w[2], w[4]))
                ds = b.digests_in(rest)
                b.require(len(ds) >= 1 and truth(ds[0] == w[3]), "info-sf-digest", "%r" % l)
        # ---- no history
        b.mkfile("N/x/file.txt", 9)
        r = b.run("info", root="N")
        b.require(r.exit == 30, "info-no-history-30", str(r))
        r = b.run("info", root=None, sf=["N/x/file.txt"])
        b.require(r.exit == 30, "info-sf-no-history-30", str(r))
    return fn


def through_a_link(b, sym):
    """the sealed folder is reached through a symbolic link (a mounted card linked into a project folder): info and info -sf report
    what the manifests hold, exactly as through the real path"""
    b.mkfile("EXT/card/clip.mov", 1)
    b.mkfile("EXT/card/sub/b.txt", 2)
    for fm in (["md5"], ["xxh64", "c4"]):
        r = b.run("create", root="EXT/card", h=fm)
        b.require(r.exit == 0, "setup-create", str(r))
    b.symlink("EXT/card", "P/linked card")
    via = sym.choose("path_given_through", ["the link", "the real folder"])
    root = "P/linked card" if via == "the link" else "EXT/card"
    target = posixpath.join(root, sym.choose("file", ["clip.mov", "sub/b.txt"]))
    r = b.run("info", root=root)
    b.require(r.exit == 0 and r.exc is None, "info-exit-0", "%s: %s" % (via, r))
    blocks = parse_info(b, r)
    b.require(len(blocks) == 1 and [g for g, _ in list(blocks.values())[0]] == [1, 2], "info-generations", "%s: %s" % (via, blocks))
    for explicit in (False, True):
        r = b.run("info", root=root if explicit else None, sf=[target])
        b.require(r.exit == 0 and r.exc is None, "info-sf-exit-0", "%s through %s explicit=%s: %s" % (target, via, explicit, r))
        lines = [l for l in r.out if GEN_RE.match(l)]
        want = []
        for m in b.manifests("EXT/card"):
            rec = m.record(cm.rel_to(target, root))
            for e in (rec.entries if rec is not None else []):
                want.append((int(m.file[:4]), e.fmt, e.digest, e.action))
        b.require(len(lines) == len(want), "info-sf-one-line-per-digest", "%s through %s: %d lines, %d digests recorded" % (target, via, len(lines), len(want)))
        for l, w in zip(lines, want):
            mm = GEN_RE.match(l)
            b.require(int(mm.group(1)) == w[0] and mm.group(3).startswith(" %s: " % w[1]), "info-sf-format-action", "%r vs %s" % (l, w[:2]))
            ds = b.digests_in(mm.group(3))
            b.require(len(ds) >= 1 and truth(ds[0] == w[2]), "info-sf-digest", "%r" % l)


def long_history(b, sym):
    b.mkfile("R/a.txt", 1)
    b.mkfile("R/d/b.txt", 2)
    n = sym.choose("generations", [9, 10, 11, 12])
    for g in range(n):
        r = b.run("create", root="R", h=["md5"]) if g % 3 else b.run("create", root="R", h=["md5"], sf=["R/d/b.txt"])
        b.require(r.exit == 0, "setup-create", str(r))
    r = b.run("info", root="R")
    got = parse_info(b, r)[b.p("R")]
    b.require([g for g, _ in got] == list(range(1, n + 1)), "info-generations", "%s" % [g for g, _ in got])
    r = b.run("info", root=None, sf=["R/d/b.txt"])
    gens = [int(GEN_RE.match(l).group(1)) for l in r.out if GEN_RE.match(l)]
    b.require(gens == list(range(1, n + 1)), "info-sf-generation", "%s" % gens)


def harnesses(tier):
    return [Harness("c19-long", long_history, frontier=2, budget_s=600, what="9-12 generations: info and info -sf list them in ascending numeric order",
                    bounds={"generations": "9-12"}, outside=[]),
            Harness("c19-linked", through_a_link, frontier=3, budget_s=600, conformance=8,
                    what="a sealed folder reached through a symbolic link: info and info -sf (root searched upwards / given) list what the manifests hold",
                    bounds={"files": 2, "generations": 2}, outside=["links inside the sealed tree"],
                    stubs=["symbolic links in the modelled file system: link nodes, resolution of every path component, lexical abspath / resolving realpath"]),
            Harness("c19-info", scenario(tier), frontier=6, budget_s=2400,
                    what="histories built by real creates (flat / nested layouts, 1-3 root generations, changing formats, failed entries, -sf "
                         "generations); info on the folder and info -sf on every file (root found by upward search and given explicitly) compared "
                         "line by line with the manifests read independently; exit 30 without history",
                    bounds={"layouts": "flat | A/AA | A+B | A/AA+A", "root generations": "1-2 (quick) / 1-3 (thorough)"},
                    outside=["-v summaries (free text)", "explicit root above a nested history (tool consults only that root's manifests)"])]
