"""runs CrossHair (crosshair-tool, symbolic execution of Python over z3) on the contracts in verif/xh/kernels.py"""
import os
import re
import subprocess
import sys

from .. import pse

KERNELS = os.path.join(os.path.dirname(os.path.dirname(os.path.abspath(__file__))), "xh", "kernels.py")


def line_of(func):
    for i, l in enumerate(open(KERNELS), 1):
        if l.startswith("def %s(" % func):
            return i + 1
    raise KeyError(func)


def run_crosshair(func, timeout_s=60):
    exe = os.path.join(os.path.dirname(sys.executable), "crosshair")
    if not os.path.exists(exe):
        return "unavailable", "crosshair not installed in the overlay venv"
    env = dict(os.environ)
    env["PYTHONPATH"] = os.pathsep.join(filter(None, [env.get("PYTHONPATH"), os.path.dirname(os.path.dirname(os.path.dirname(KERNELS)))]))
    try:
        p = subprocess.run([exe, "check", "--report_all", "--per_condition_timeout", str(timeout_s), "%s:%d" % (KERNELS, line_of(func))],
                           capture_output=True, text=True, timeout=timeout_s * 3 + 60, env=env)
    except subprocess.TimeoutExpired:
        return "timeout", ""
    out = p.stdout + p.stderr
    if "Confirmed over all paths" in out:
        return "confirmed", out.strip()[-300:]
    m = re.search(r"error: (.*when calling .*)", out)
    if m:
        return "refuted", m.group(1)
    return "not-confirmed", out.strip()[-300:]


def second_engine(func, arg_names):
    """unit-mode harness body: CrossHair must not refute the contract; a refutation is replayed concretely on the real code"""
    def fn(sym):
        import importlib
        K = importlib.import_module("verif.xh.kernels")
        if not sym.symbolic:
            args = [sym.int(a, 0, 10 ** 9) for a in arg_names]
            pse.require(getattr(K, func)(*args) is True, "second-engine-counterexample", "%s%r" % (func, tuple(args)))
            return
        verdict, detail = run_crosshair(func)
        eng = pse.cur()
        eng.path_note = "crosshair %s: %s" % (func, verdict)
        vals = {}
        if verdict == "refuted":
            m = re.search(r"%s\(([^)]*)\)" % func, detail)
            if m:
                parts = [x.strip() for x in m.group(1).split(",") if x.strip()]
                for a, x in zip(arg_names, parts):
                    x = x.split("=")[-1].strip()
                    if re.fullmatch(r"-?\d+", x):
                        vals[a] = int(x)
        for a in arg_names:
            v = sym.int(a, 0, 10 ** 9)
            if a in vals:
                sym.assume(v == vals[a])
        pse.require(verdict != "refuted", "second-engine-counterexample", "CrossHair refutes %s: %s" % (func, detail))
        pse.truth(sym.int("_dummy", 0, 1) == 0)
    return fn
