"""C13 - Results do not depend on where the tree is mounted or how the OS lists it."""
import posixpath
from ..runner import Harness
from ..pse import truth
from . import common as cm

LOCATIONS = ["/srv/data", "/ascmhl", "/mnt/ascmhl/projects", "/vol/render.tmp/day1", "/a b/ü & co", "/.DS_Store/x", "/srv/R", "/Shoot [2024]/[B-cam] day 1",
             "/Volumes/100% synced/take 50%d {0}"]  # (the last one: printf- and format-style placeholders in folder names)
ORDERS = ["sorted", "reversed", "rotated", "interleaved"]


def build(b):
    files = {"R/a.txt": 1, "R/b.tmp": 2, "R/d/c.txt": 3, "R/d/e/f.txt": 4, "R/AB/ab1.txt": 5, "R/B/b1.txt": 6, "R/A/a1.txt": 7, "R/C/c1.txt": 8, "R/d/Clip.mov": 9, "R/d/clip.mov": 10, "R/d/Reel/r.txt": 11, "R/d/reel/r.txt": 12}
    for f, c in files.items():
        b.mkfile(f, c)
    b.mkdir("R/z")


def root_argument(spelling):
    if spelling == "trailing-slash":
        return dict(root="R/")
    if spelling == "relative":
        return dict(root="R", cwd="")
    if spelling == "dot":
        return dict(root=".", cwd="R")
    if spelling == "dot-slash":
        return dict(root="./R", cwd="")
    if spelling == "slash-dot":
        return dict(root="R/.", cwd="")
    if spelling == "dotdot":
        return dict(root="..", cwd="R/d")
    return dict(root="R")


def seal(b, sym, spelling, nested):
    rootarg = root_argument(spelling)
    if nested:
        for c in ("R/B", "R/AB", "R/C", "R/A"):
            r = b.run("create", root=c, h=["md5"])
            b.require(r.exit == 0, "setup-create", "%s %s" % (c, r))
            b.restamp(c)
    r = b.run("create", h=["md5", "c4"], i=["*.tmp", "d/e/f.txt", "/d/Reel"], **rootarg)
    b.require(r.exit == 0 and r.exc is None, "create-exit-0", "%s %s" % (rootarg, r))
    r = b.run("create", h=["md5"], v=True, **rootarg)  # (verbose: what is printed has no influence on what is written)
    b.require(r.exit == 0 and r.exc is None, "create-exit-0", "second (-v): %s %s" % (rootarg, r))


def rename_phase(b, spelling):
    """a recorded rename, then verify / diff with the same spelling of the root argument"""
    rootarg = root_argument(spelling)
    b.rename("R/a.txt", "R/d/a renamed.txt")
    r = b.run("create", h=["md5"], dr=True, **rootarg)
    b.require(r.exit == 0 and r.exc is None, "create-exit-0", "create -dr: %s %s" % (rootarg, r))
    for cmd in ("verify", "diff"):
        r = b.run(cmd, **rootarg)
        b.require(r.exit == 0 and r.exc is None, "relocated-copy-verifies", "%s after a recorded rename with root given as %s: %s | %s" % (cmd, rootarg, r, (r.err + r.out)[:3]))


def collect(b, nested):
    out = {}
    roots = ["R"] + (["R/A", "R/AB", "R/B", "R/C"] if nested else [])
    for hr in roots:
        folder = posixpath.join(hr, "ascmhl")
        for n in b.folder_listing(folder):
            out[posixpath.join(folder, n)] = b.fingerprint(posixpath.join(folder, n))
    return out


def scenario(tier):
    def fn(b, sym):
        nested = sym.flag("nested_histories")
        loc = sym.choose("location", LOCATIONS)
        order = sym.choose("enumeration_order", ORDERS)
        spelling = sym.choose("root_spelling", ["absolute", "trailing-slash", "relative", "dot", "dot-slash", "slash-dot", "dotdot"])
        # canonical run: /mnt, sorted enumeration, absolute root
        if b.real:
            b.listing = "sorted"
        else:
            b.world.listing = "sorted"
        build(b)
        seal(b, sym, "absolute", nested)
        ref = collect(b, nested)
        # same tree, same clock, other location / enumeration order / spelling of the root argument
        b2 = b.sibling(loc, listing=order)
        try:
            build(b2)
            seal(b2, sym, spelling, nested)
            got = collect(b2, nested)
            tag = "location %s, order %s, root given %s, nested %s" % (loc, order, spelling, nested)
            b.note(tag)
            b.require(sorted(got) == sorted(ref), "same-files-written", "%s: %s vs %s" % (tag, sorted(got), sorted(ref)))
            for f in sorted(ref):
                b.require(truth(b.same_bytes(ref[f], got[f])), "byte-identical", "%s: %s differs" % (tag, f))
            # no absolute location leaks into records
            for hr in ["R"] + (["R/A", "R/AB", "R/B", "R/C"] if nested else []):
                for m in b2.manifests(hr):
                    for rec in m.records:
                        cm.check_path_syntax(b, rec.path, "record-path")
            # the sealed tree copied to yet another location verifies there
            b3 = b2.sibling("/copies/%s" % ("ascmhl" if sym.flag("copy_below_ascmhl") else "x"), listing=order)
            try:
                b2.copy_tree_to("R", b3, "R")
                for cmd, kw in (("verify", {"v": True}), ("verify", {"dh": True}), ("diff", {})):
                    r = b3.run(cmd, root="R", **kw)
                    b.require(r.exit == 0 and r.exc is None, "relocated-copy-verifies", "%s: %s %s -> %s" % (tag, cmd, kw, r))
            finally:
                b3.close()
            # third generation: a recorded rename, in both worlds; still byte-identical
            rename_phase(b2, spelling)
            got = collect(b2, nested)
            b2.close()
            b2 = None
            rename_phase(b, "absolute")
            ref = collect(b, nested)
            b.require(sorted(got) == sorted(ref), "same-files-written", "%s after a recorded rename: %s vs %s" % (tag, sorted(got), sorted(ref)))
            for f in sorted(ref):
                b.require(truth(b.same_bytes(ref[f], got[f])), "byte-identical", "%s after a recorded rename: %s differs" % (tag, f))
        finally:
            if b2 is not None:
                b2.close()
    return fn


def harnesses(tier):
    return [Harness("c13-location-order", scenario(tier), frontier=6, budget_s=2400,
                    what="same tree (flat or with 4 sibling nested histories) sealed twice under the same clock at /mnt with sorted enumeration and at "
                         "one of 7 adversarial locations (ancestor named 'ascmhl', '.DS_Store', matching the user pattern *.tmp, spaces/non-ASCII) x 4 "
                         "enumeration orders x 7 spellings of the root argument: all manifests and chains byte-identical; relocated copy verifies",
                    bounds={"locations": LOCATIONS, "enumeration orders": ORDERS, "root spellings": ["absolute", "trailing slash", "relative to cwd", "'.' from inside", "./R", "R/.", "'..' from a sub-folder"]},
                    outside=["arbitrary location strings (7 adversarial representatives are enumerated; the match argument no longer contains the location)",
                             "arbitrary permutations (4 representative orders per directory)", "symlinked locations"])]
