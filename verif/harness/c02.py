"""C02 - A sealed generation records exactly the tree that is on disk."""
import posixpath
from ..runner import Harness
from ..pse import truth
from . import common as cm

FSETS = {"quick": [["md5"], ["xxh64", "c4"]],
         "thorough": [["md5"], ["xxh64", "c4"], ["c4", "md5", "sha1", "xxh128", "xxh3", "xxh64"], ["sha1", "xxh3"]]}


def new_manifests(b, roots_before, names_before, top):
    roots = cm.history_roots(b, top)
    out = {}
    for r in roots:
        before = names_before.get(r, [])
        ms = [m for m in b.manifests(r) if m.file not in before]
        out[r] = ms
    return roots, out


def check_records(b, top, fmts, roots, news, expected, sizes=True, extra_ok=True, tag=""):
    """news: root -> [Manifest]; expected: root -> {path: kind}"""
    for r in sorted(set(list(expected) + list(news))):
        exp = expected.get(r, {})
        ms = news.get(r, [])
        got = {}
        for m in ms:
            for rec in m.records:
                cm.check_path_syntax(b, rec.path, "record-path")
                b.require(rec.path not in got, "duplicate-record", "%s%s in history %s" % (tag, rec.path, r))
                got[rec.path] = rec
        missing = sorted(set(exp) - set(got))
        extra = sorted(set(got) - set(exp))
        b.require(not missing, "record-missing", "%shistory %s lacks %s (has %s)" % (tag, r, missing, sorted(got)))
        b.require(not extra, "record-unexpected", "%shistory %s has unexpected %s" % (tag, r, extra))
        for p, rec in got.items():
            b.require(rec.kind == exp[p], "record-kind", "%s%s is %s expected %s" % (tag, p, rec.kind, exp[p]))
            if rec.kind != "file":
                continue
            frel = posixpath.normpath(posixpath.join(r, p))
            for f in fmts:
                e = rec.entry(f)
                b.require(e is not None, "requested-format-missing", "%s%s lacks %s" % (tag, p, f))
            for e in rec.entries:
                b.require(truth(e.digest == b.H(e.fmt, frel)), "record-digest-wrong", "%s%s %s" % (tag, p, e.fmt))
            if sizes:
                sz = b.int_attr(rec.size)
                b.require(sz is not None, "size-attribute-missing", "%s%s (real size %s)" % (tag, p, _show(b.size(frel))))
                b.require(truth(sz == b.size(frel)), "size-attribute-wrong", "%s%s" % (tag, p))


def _show(x):
    return x if isinstance(x, int) else "symbolic"


def folder(tier):
    def fn(b, sym):
        t = cm.Tree(b)
        sa = sym.int("size_a", 0, 3)
        t.file("R/a.txt", 1, size=sa)
        if sym.flag("has_b"):
            t.file("R/b c.txt", 2)
        if sym.flag("has_d"):
            t.file("R/d/ü.txt", 3, size=sym.int("size_u", 0, 3))
            if sym.flag("has_e"):
                t.dir("R/d/e")
                if sym.flag("has_xy"):
                    t.file("R/d/e/x&y.txt", 4)
        if sym.flag("has_z"):
            t.dir("R/z")
        prior = sym.choose("prior", ["none", "one", "two"] if tier != "quick" else ["none", "one"])
        if prior != "none":
            r = b.run("create", root="R", h=["sha1"])
            b.require(r.exit == 0, "setup-create", str(r))
            if prior == "two":
                r = b.run("create", root="R", h=["md5", "sha1"], n=True)
                b.require(r.exit == 0, "setup-create", str(r))
        fmts = sym.choose("fmts", FSETS[tier])
        n = sym.flag("n")
        names_before = {r: b.manifest_names(r) for r in cm.history_roots(b, "R")}
        r = b.run("create", root="R", h=fmts, n=n)
        b.require(r.exit == 0 and r.exc is None, "create-exit-0", str(r))
        roots, news = new_manifests(b, None, names_before, "R")
        b.require(roots == ["R"] and len(news["R"]) == 1, "one-new-manifest", "%s %s" % (roots, {k: len(v) for k, v in news.items()}))
        check_records(b, "R", fmts, roots, news, cm.expected_records(b, "R", roots))
    return fn


def nested(tier):
    def fn(b, sym):
        t = cm.Tree(b)
        t.file("R/s.txt", 1)
        t.file("R/A/a1.txt", 2)
        t.file("R/A/AA/aa1.txt", 3)
        t.file("R/A/AA/AAA/aaa1.txt", 4)
        t.file("R/AB/ab1.txt", 5)
        t.file("R/B/b1.txt", 6)
        # files with the same history-relative path and the same size in a parent and in a nested history
        t.file("R/x/clip.mov", 7)
        t.file("R/A/AA/x/clip.mov", 8)
        t.file("R/B/x/clip.mov", 9)
        cands = ["R/A/AA/AAA", "R/A/AA", "R/A", "R/AB", "R/B"]
        chosen = [c for c in cands if sym.flag("hist_" + c.replace("/", "_"))]
        if len(chosen) > (3 if tier == "quick" else 5):
            sym.assume(False)
        if sym.flag("reverse_order"):
            chosen = chosen[::-1]
        for c in chosen:
            r = b.run("create", root=c, h=["md5"])
            b.require(r.exit == 0, "setup-create", "%s %s" % (c, r))
        fmts = sym.choose("fmts", FSETS["quick"])
        n = sym.flag("n")
        names_before = {r: b.manifest_names(r) for r in cm.history_roots(b, "R")}
        r = b.run("create", root="R", h=fmts, n=n)
        b.require(r.exit == 0 and r.exc is None, "create-exit-0", str(r))
        roots, news = new_manifests(b, None, names_before, "R")
        b.require(set(roots) == set(chosen + ["R"]), "history-roots", str(roots))
        for hr in roots:
            b.require(len(news[hr]) == 1, "one-new-manifest", "%s: %d" % (hr, len(news[hr])))
        check_records(b, "R", fmts, roots, news, cm.expected_records(b, "R", roots))
    return fn


def single_files(tier):
    def fn(b, sym):
        t = cm.Tree(b)
        t.file("R/a.txt", 1, size=sym.int("size_a", 0, 3))
        t.file("R/b c.txt", 2)
        t.file("R/d/ü.txt", 3)
        t.file("R/d/e/x&y.txt", 4)
        t.file("R/d/e/w.txt", 5)
        t.file("R/d/a.txt", 6)  # with a child history at d: the same history-relative path as R/a.txt
        t.dir("R/z")
        child = sym.flag("child_history_at_d")
        if child:
            r = b.run("create", root="R/d", h=["md5"])
            b.require(r.exit == 0, "setup-create", str(r))
        if sym.flag("prior"):
            r = b.run("create", root="R", h=["sha1"])
            b.require(r.exit == 0, "setup-create", str(r))
        sel = sym.choose("selection", [["R/a.txt"], ["R/d/ü.txt"], ["R/d/e"], ["R/a.txt", "R/d/e/x&y.txt"], ["R/b c.txt", "R/d"],
                                       ["R/z"], ["R/a.txt", "R/d/a.txt"], ["R/d", "R/d/e/w.txt"]])
        fmts = sym.choose("fmts", FSETS["quick"])
        names_before = {r: b.manifest_names(r) for r in cm.history_roots(b, "R")}
        spelled = sym.choose("sf_paths_spelled", ["absolute", "relative-with-dotdot"])
        if spelled == "absolute":
            r = b.run("create", root="R", h=fmts, sf=sel)
        else:
            # the command is started inside R/z and names the files relative to it (../a.txt, ../d/e, ...)
            r = b.run("create", root=b.p("R"), cwd="R/z", h=fmts, sf=[posixpath.join("..", cm.rel_to(s_, "R")) for s_ in sel])
        b.require(r.exit == 0 and r.exc is None, "create-exit-0", str(r))
        roots, news = new_manifests(b, None, names_before, "R")
        expected = {hr: {} for hr in roots}
        for s in sel:
            fl = b.walk_files(s) if b.isdir(s) else [s]
            for f in fl:
                if "/ascmhl/" in f:
                    continue
                own = cm.owner_history(f, roots, "R")
                expected[own][cm.rel_to(f, own)] = "file"
        check_records(b, "R", fmts, roots, news, expected, tag="-sf %s: " % sel)
    return fn


def bigfile(tier):
    MIB = 1024 * 1024

    def fn(b, sym):
        n = sym.int("size_big", 0, (2 if tier == "quick" else 5) * MIB + 1)
        if not b.real:
            b.world.max_reads = 4000
        b.mkfile("R/big.mov", 1, size=n)
        b.mkfile("R/d/small.txt", 2, size=7)
        fmts = sym.choose("fmts", [["md5"], ["xxh64", "c4"], ["md5", "sha1", "xxh128"]])
        names_before = {"R": []}
        r = b.run("create", root="R", h=fmts)
        b.require(r.exit == 0 and r.exc is None, "create-exit-0", str(r))
        roots, news = new_manifests(b, None, names_before, "R")
        check_records(b, "R", fmts, roots, news, cm.expected_records(b, "R", roots))
    return fn


def _harnesses(tier):
    out = ["-sf targets outside the root", "overlapping -sf selections", "symlinks",
           "XML escaping of special names (lxml; exercised only in the real replays)", "user ignore patterns (C12)"]
    return [
        Harness("c02-folder", folder(tier), frontier=5, budget_s=1500,
                what="create on U1 (symbolic presence of 6 nodes, symbolic sizes incl. 0), format sets, -n, prior history",
                bounds={"tree": "R/{a.txt(size 0..3), 'b c.txt'?, d/{ü.txt(size 0..3), e/{x&y.txt?}?}?, z/?}", "formats": FSETS[tier],
                        "prior": "none|one generation (sha1)|two"}, outside=out),
        Harness("c02-nested", nested(tier), frontier=5, budget_s=1500,
                what="create on U2 with any subset of 4 candidate nested histories created in either order",
                bounds={"tree": "R/{s.txt,A/{a1.txt,AA/{aa1.txt,AAA/{aaa1.txt}}},AB/{ab1.txt},B/{b1.txt}}",
                        "nested roots": "any subset (<=3 quick) of A/AA/AAA, A/AA, A, AB, B (A/AB are prefix siblings)"}, outside=out),
        Harness("c02-bigfile", bigfile(tier), frontier=3, budget_s=600,
                what="create on a tree with one file of symbolic length across the 1 MiB read-chunk boundaries: size attribute and digests of the records",
                bounds={"file length": "0..2 MiB+1 (quick) / 5 MiB+1 (thorough)"}, outside=out),
        Harness("c02-sf", single_files(tier), frontier=4, budget_s=900,
                what="create -sf with 6 selections (file, nested file, folder, two files, file+folder, empty folder), optional child history at d",
                bounds={"selections": 6}, outside=out),
    ]


def harnesses(tier):
    from . import tour
    return list(_harnesses(tier)) + tour.harnesses(tier, "C02")
