"""C08 - Nested histories partition the tree and reference each other correctly."""
import posixpath
from ..runner import Harness
from ..pse import truth
from . import common as cm
from .c02 import check_records, new_manifests

CANDS = ["R/A/AA/AAA", "R/A/AA", "R/A", "R/AB", "R/B/AA", "R/B"]
FILES = {"R/s.txt": 1, "R/A/a1.txt": 2, "R/A/AA/aa1.txt": 3, "R/A/AA/AAA/aaa1.txt": 4, "R/AB/ab1.txt": 5, "R/B/b1.txt": 6, "R/B/AA/baa1.txt": 7, "R/A/AA/AAA.txt": 8, "R/A/AA/AAA_proxy/p.mov": 9, "R/A/AA_notes.txt": 10}


def parent_of(hr, roots):
    p = posixpath.dirname(hr)
    return cm.owner_history(p, [r for r in roots if r != hr], "R")


def scenario(tier):
    def fn(b, sym):
        for f, c in FILES.items():
            b.mkfile(f, c)
        chosen = [c for c in CANDS if sym.flag("hist_" + c.replace("/", "_"))]
        if len(chosen) > (3 if tier == "quick" else 5):
            sym.assume(False)
        order = sym.choose("creation_order", ["deep-first", "shallow-first"])
        for c in (chosen if order == "deep-first" else chosen[::-1]):
            r = b.run("create", root=c, h=["md5"])
            b.require(r.exit == 0, "setup-create", "%s %s" % (c, r))
        roots = sorted(set(chosen + ["R"]))
        b.require(cm.history_roots(b, "R") == [r for r in roots if r != "R"], "setup-roots", str(cm.history_roots(b, "R")))
        mode = sym.choose("mode", ["folder", "folder-n", "sf", "folder-dr-ignoring-B", "folder-after-middle-history-stored-a-pattern"])
        fmts = sym.choose("formats", [["md5"], ["xxh64", "c4"]])
        names_before = {r: b.manifest_names(r) for r in roots}
        if mode == "sf":
            target = sym.choose("sf_target", sorted(FILES))
            r = b.run("create", root="R", h=fmts, sf=[target])
            owner = cm.owner_history(target, roots, "R")
            expected_writers = {x for x in roots if cm.under(owner, x)}
        elif mode == "folder-dr-ignoring-B":
            # a second generation of the root (the first one records everything), then a new file, -dr and a pattern excluding folder B
            r = b.run("create", root="R", h=fmts)
            b.require(r.exit == 0, "setup-create", str(r))
            names_before = {x: b.manifest_names(x) for x in roots}
            b.mkfile("R/A/extra.txt", 70)
            r = b.run("create", root="R", h=fmts, dr=True, i=["B"])
            expected_writers = {x for x in roots if not cm.under(x, "R/B")}
        elif mode == "folder-after-middle-history-stored-a-pattern":
            # an earlier run on the history in the middle of a stack stored a pattern that names the folder of the history below it;
            # the run from the top does not carry that pattern: every history still gets its generation, with its own files
            mids = [x for x in roots if x != "R" and any(y != x and cm.under(y, x) for y in roots)]
            if not mids:
                sym.assume(False)
            mid = mids[0]
            below = sorted(y for y in roots if y != mid and cm.under(y, mid))[0]
            r = b.run("create", root=mid, h=fmts, i=[cm.rel_to(below, mid).split("/")[0]])
            b.require(r.exit == 0 and r.exc is None, "setup-create", str(r))
            names_before = {x: b.manifest_names(x) for x in roots}
            r = b.run("create", root="R", h=fmts)
            expected_writers = set(roots)
        else:
            r = b.run("create", root="R", h=fmts, n=(mode == "folder-n"))
            expected_writers = set(roots)
        b.note("%s histories=%s" % (mode, chosen))
        b.require(r.exit == 0 and r.exc is None, "create-exit-0", str(r))
        _, news = new_manifests(b, None, names_before, "R")
        writers = {x for x in roots if news.get(x)}
        b.require(writers == expected_writers, "histories-with-new-generation",
                  "mode %s: wrote %s expected %s" % (mode, sorted(writers), sorted(expected_writers)))
        for x in writers:
            b.require(len(news[x]) == 1, "one-new-manifest", "%s: %d" % (x, len(news[x])))
        # 1. partition
        if mode == "folder-dr-ignoring-B":
            ign = cm.make_ignored(cm.DEFAULT_IGNORES + ["B"], "R")
            check_records(b, "R", fmts, roots, news, cm.expected_records(b, "R", [x for x in roots if not cm.under(x, "R/B")], ign))
            for par in writers:
                refs = news[par][0].references or []
                b.require(not any(p.startswith("B/") for p, _ in refs), "references-direct-children", "%s references an ignored history: %s" % (par, refs))
            return
        if mode == "sf":
            exp = {x: {} for x in roots}
            exp[owner][cm.rel_to(target, owner)] = "file"
            check_records(b, "R", fmts, roots, news, exp, tag="-sf %s: " % target)
        else:
            check_records(b, "R", fmts, roots, news, cm.expected_records(b, "R", roots))
        # 2. nested root appears in its parent with the child's own root hash
        if mode != "sf":
            for hr in roots:
                if hr == "R":
                    continue
                par = parent_of(hr, roots)
                pm, chm = news[par][0], news[hr][0]
                rec = pm.record(cm.rel_to(hr, par))
                b.require(rec is not None and rec.kind == "dir", "nested-root-entry-in-parent", "%s in %s" % (hr, par))
                if mode == "folder-n":
                    b.require(rec.entries == [] and chm.roothash is None, "no-directory-hashes-with-n", hr)
                    continue
                b.require(chm.roothash is not None, "child-roothash-present", hr)
                b.require(sorted(e.fmt for e in rec.entries) == sorted(e.fmt for e in chm.roothash), "nested-root-entry-formats", hr)
                for e in rec.entries:
                    ce = [x for x in chm.roothash if x.fmt == e.fmt][0]
                    b.require(truth(e.digest == ce.digest) and truth(e.structure == ce.structure), "nested-root-entry-equals-child-roothash",
                              "%s %s" % (hr, e.fmt))
        # 3. references: each parent references exactly its direct children that wrote, by relative path and c4 of the final bytes
        for par in writers:
            kids = sorted(x for x in writers if x != "R" and x != par and parent_of(x, roots) == par)
            refs = news[par][0].references or []
            want = sorted(posixpath.join(cm.rel_to(k, par), "ascmhl", news[k][0].file) for k in kids)
            b.require(sorted(p for p, _ in refs) == want, "references-direct-children", "%s: %s expected %s" % (par, sorted(p for p, _ in refs), want))
            for p, c4 in refs:
                b.require(truth(c4 == b.H("c4", posixpath.join(par, p))), "reference-c4-of-final-bytes", "%s -> %s" % (par, p))
        # 4. children are written before their parents are started (operation log; the model also sees the close)
        def first_last(path):
            idx = [i for i, o in enumerate(r.ops) if len(o) > 1 and o[1] == path and o[0] in ("open_w", "write", "close", "replace")]
            idx += [i for i, o in enumerate(r.ops) if len(o) > 2 and o[2] == path and o[0] == "replace"]
            return (min(idx), max(idx)) if idx else None
        for k in writers:
            if k == "R":
                continue
            par = parent_of(k, roots)
            kp = first_last(b.p(posixpath.join(k, "ascmhl", news[k][0].file)))
            pp = first_last(b.p(posixpath.join(par, "ascmhl", news[par][0].file)))
            b.require(kp is not None and pp is not None and kp[1] < pp[0], "child-written-before-parent", "%s vs %s: %s %s" % (k, par, kp, pp))
    return fn


def _harnesses(tier):
    return [Harness("c08-nested", scenario(tier), frontier=6, budget_s=2400,
                    what="U2 with any subset (<=3 quick / all thorough) of 6 candidate nested roots (siblings, chain to depth 4, prefix pair A/AB) "
                         "incl. two nested roots with the same folder name (A/AA, B/AA), created deep-first or shallow-first; then create in folder mode, folder -n, or -sf on any file",
                    bounds={"candidate roots": CANDS, "files": sorted(FILES), "formats": "md5 | xxh64+c4"},
                    outside=["order of <hashlistreference> elements (C13)", "overlapping -sf selections", "ignored nested roots"])]


def harnesses(tier):
    from . import tour
    return list(_harnesses(tier)) + tour.harnesses(tier, "C08")
