"""C06 - Histories are append-only and generations are numbered without gaps."""
import datetime as _dt
import posixpath
import re
from ..runner import Harness
from ..pse import truth
from . import common as cm

NAME_RE = re.compile(r"^(\d{4,})_(.+)_(\d{4}-\d{2}-\d{2}_\d{6})Z\.mhl$")


def utc_name_part(epoch):
    return _dt.datetime.fromtimestamp(epoch, _dt.timezone.utc).strftime("%Y-%m-%d_%H%M%S")


def state(b, roots):
    st = {}
    for r in roots:
        names = b.manifest_names(r)
        st[r] = {"names": names, "tokens": {n: b.file_token(posixpath.join(r, "ascmhl", n)) for n in names},
                 "chain": b.chain(r) or [], "listing": b.folder_listing(posixpath.join(r, "ascmhl")) if b.exists(posixpath.join(r, "ascmhl")) else []}
    return st


def check_step(b, before, after, touched, now, tag):
    for r in sorted(after):
        old = before.get(r, {"names": [], "tokens": {}, "chain": [], "listing": []})
        new = after[r]
        # append-only: every earlier manifest is still there, byte-identical
        for n in old["names"]:
            b.require(n in new["tokens"], "manifest-removed", "%s %s/%s" % (tag, r, n))
            ta, tb = old["tokens"][n], new["tokens"][n]
            b.require(truth(ta[0] == tb[0]) and truth(ta[1] == tb[1]), "manifest-modified", "%s %s/%s" % (tag, r, n))
        added = [n for n in new["names"] if n not in old["names"]]
        exp_added = 1 if r in touched else 0
        b.require(len(added) == exp_added, "one-new-manifest-per-touched-history", "%s %s: added %s expected %d" % (tag, r, added, exp_added))
        extra = sorted(set(new["listing"]) - set(old["listing"]) - set(added) - {"ascmhl_chain.xml"})
        b.require(not extra, "no-other-file-in-ascmhl", "%s %s: %s" % (tag, r, extra))
        if not added:
            b.require(len(new["chain"]) == len(old["chain"]), "chain-untouched", "%s %s" % (tag, r))
            continue
        name = added[0]
        m = NAME_RE.match(name)
        b.require(m is not None, "manifest-name-shape", "%s %s" % (tag, name))
        nums = [int(NAME_RE.match(n).group(1)) for n in old["names"] if NAME_RE.match(n)]
        b.require(int(m.group(1)) == (max(nums) if nums else 0) + 1, "generation-number-max-plus-one", "%s %s after %s" % (tag, name, old["names"]))
        b.require(len(m.group(1)) == 4, "generation-number-4-digits", name)
        b.require(m.group(2) == posixpath.basename(r), "manifest-name-folder", "%s %s vs %s" % (tag, name, posixpath.basename(r)))
        b.require(m.group(3) == utc_name_part(now), "manifest-name-utc-time", "%s %s vs %s" % (tag, name, utc_name_part(now)))
        # chain: earlier entries unchanged and in order, exactly one new entry matching the new file
        oc, nc = old["chain"], new["chain"]
        b.require(len(nc) == len(oc) + 1, "chain-one-new-entry", "%s %s: %d -> %d" % (tag, r, len(oc), len(nc)))
        for i, e in enumerate(oc):
            b.require(nc[i].seq == e.seq and nc[i].path == e.path and truth(nc[i].c4 == e.c4), "chain-earlier-entry-changed", "%s %s #%d" % (tag, r, i))
        last = nc[-1]
        b.require(last.path == name, "chain-entry-filename", "%s %s vs %s" % (tag, last.path, name))
        b.require(last.seq is not None and int(last.seq) == int(m.group(1)), "chain-entry-sequencenr", "%s %s vs %s" % (tag, last.seq, m.group(1)))
        b.require(truth(last.c4 == b.H("c4", posixpath.join(r, "ascmhl", name))), "chain-entry-c4-of-final-bytes", "%s %s" % (tag, name))


def check_reload(b, roots, tag):
    r = b.run("info", root="R")
    b.require(r.exit == 0, "reload-ok", "%s info: %s" % (tag, r))
    # output: "Info with history at path", then generations of root, then per child "Child History at <path>:" blocks
    blocks, cur = {}, "R"
    for l in r.out:
        m = re.search(r"Child History at (.+):$", l)
        if m:
            cur = cm.rel_to(m.group(1), b.base) if m.group(1).startswith(b.base) else m.group(1)
            continue
        m = re.match(r"\s+Generation (\d+) ", l)
        if m:
            blocks.setdefault(cur, []).append(int(m.group(1)))
    for hr in roots:
        n = len(b.manifest_names(hr))
        b.require(blocks.get(hr, []) == list(range(1, n + 1)), "reload-generations-1..n", "%s %s: %s (n=%d)" % (tag, hr, blocks.get(hr), n))


def scenario(tier):
    steps_n = 2 if tier == "quick" else 3

    def fn(b, sym):
        files = {"R/s.txt": 1, "R/A/a1.txt": 2, "R/A/AA/aa1.txt": 3, "R/B/b1.txt": 4}
        for f, c in files.items():
            b.mkfile(f, c)
        layout = sym.choose("layout", [[], ["R/A/AA"], ["R/A", "R/B"], ["R/A/AA", "R/A"]])
        for c in layout:
            for h0 in (["md5"], ["sha1"]):  # two prior generations, so that later chains have >= 3 earlier entries
                r = b.run("create", root=c, h=h0)
                b.require(r.exit == 0, "setup-create", str(r))
        if not layout:
            for h0 in (["md5"], ["sha1"]):
                r = b.run("create", root="R", h=h0)
                b.require(r.exit == 0, "setup-create", str(r))
        if sym.flag("same_second"):
            b.tick = 0
        roots_all = sorted(set(layout + ["R"]))
        for step in range(steps_n):
            edit = sym.choose("edit%d" % step, ["none", "alter", "delete", "add"])
            if edit == "alter":
                b.alter("R/A/AA/aa1.txt", 30 + step)
            elif edit == "delete" and b.exists("R/B/b1.txt"):
                b.delete("R/B/b1.txt")
            elif edit == "add":
                b.mkfile("R/A/new%d.txt" % step, 40 + step)
            mode = sym.choose("mode%d" % step, ["folder", "sf-root-file", "sf-deep-file", "sf-root-and-deep-file"])
            roots = [r for r in roots_all if b.exists(r)]
            before = state(b, roots)
            now = b.current_now()
            if mode == "folder":
                r = b.run("create", root="R", h=[["md5"], ["xxh64", "md5"], ["c4"]][step])
                touched = set(roots)
            elif mode == "sf-root-file":
                r = b.run("create", root="R", h=["md5"], sf=["R/s.txt"])
                touched = {"R"}
            elif mode == "sf-root-and-deep-file":
                r = b.run("create", root="R", h=["md5"], sf=["R/s.txt", "R/A/AA/aa1.txt"])
                touched = {x for x in roots if cm.under("R/A/AA/aa1.txt", x)}
            else:
                r = b.run("create", root="R", h=["md5"], sf=["R/A/AA/aa1.txt"])
                touched = {x for x in roots if cm.under("R/A/AA/aa1.txt", x)}
            tag = "step %d (%s, %s) exit %s" % (step, edit, mode, r.exit)
            b.note(tag)
            b.require(r.exit in (0, 10, 11) and (r.exc is None or r.exit != 0), "create-exit-code", "%s exc %s" % (tag, r.exc))
            after = state(b, [x for x in roots_all if b.exists(x)])
            check_step(b, before, after, touched, now, tag)
        check_reload(b, [x for x in roots_all if b.exists(x)], "end")
    return fn


def long_history(tier):
    ROOT = "A001[C002] Übung & <日>"  # a folder name with glob metacharacters, multi-byte and XML-special characters

    def fn(b, sym):
        b.mkfile(ROOT + "/clip.mov", 1)
        b.mkfile(ROOT + "/sub/x.txt", 2)
        nested = sym.flag("nested_history_at_sub")
        if nested:
            r = b.run("create", root=ROOT + "/sub", h=["md5"])
            b.require(r.exit == 0, "setup-create", str(r))
        if sym.flag("same_second"):
            b.tick = 0
        n = sym.choose("runs", [10, 11, 12] if tier == "quick" else [10, 11, 12, 13, 14])
        roots = [ROOT] + ([ROOT + "/sub"] if nested else [])
        for i in range(n):
            before = state(b, roots)
            now = b.current_now()
            sf = (i % 3 == 2)
            r = b.run("create", root=ROOT, h=["md5"], sf=[ROOT + "/sub/x.txt"]) if sf else b.run("create", root=ROOT, h=["md5"])
            b.require(r.exit == 0 and r.exc is None, "create-exit-code", "run %d: %s" % (i, r))
            check_step(b, before, state(b, roots), set(roots), now, "run %d of %d" % (i + 1, n))
        r = b.run("info", root=ROOT)
        b.require(r.exit == 0, "reload-ok", str(r))
        gens = [int(m.group(1)) for m in (re.match(r"\s+Generation (\d+) ", l) for l in r.out) if m]
        k = len(b.manifest_names(ROOT))
        b.require(gens[:k] == list(range(1, k + 1)), "reload-generations-1..n", "%s (n=%d)" % (gens, k))
    return fn


def zones(b, sym):
    """the time in the manifest name is UTC whatever the local zone: fixed offsets, zones with DST rules in or out of DST"""
    std = 60 * sym.choose("std_offset_minutes", [0, 600, -300, 330])
    has_dst = sym.flag("zone_has_dst_rules")
    dst_now = sym.flag("dst_in_force_now") if has_dst else False
    now = b.current_now()
    b.set_zone(std, std + 3600 if has_dst else std, dst_now, dst_now, now - 86400)
    b.mkfile("R/a.txt", 1, mtime=now - 86400)
    for i in range(2):
        before = state(b, ["R"])
        r = b.run("create", root="R", h=["md5"]) if i == 0 else b.run("create", root="R", h=["md5"], sf=["R/a.txt"])
        b.require(r.exit == 0 and r.exc is None, "create-exit-code", str(r))
        win = b.now_window()
        after = state(b, ["R"])
        added = [n for n in after["R"]["names"] if n not in before["R"]["names"]]
        b.require(len(added) == 1 and NAME_RE.match(added[0]) is not None, "manifest-name-shape", str(added))
        import calendar
        t_name = calendar.timegm(tuple(int(x) for x in re.match(r"(\d{4})-(\d{2})-(\d{2})_(\d{2})(\d{2})(\d{2})", NAME_RE.match(added[0]).group(3)).groups()))
        b.require(win[0] - 1 <= t_name <= win[1] + 1, "manifest-name-utc-time",
                  "%s does not carry the UTC time of the run (window %s; zone std %+d min, DST rules %s, in force %s)" % (added[0], win, std // 60, has_dst, dst_now))
        b.require(after["R"]["chain"][-1].path == added[0], "chain-entry-filename", added[0])


def five_digits(b, sym):
    """the :04d / \\d{4,} boundary: generation 9999 -> 10000 -> 10001"""
    b.mkfile("R/clip.mov", 1)
    r = b.run("create", root="R", h=["md5"])
    b.require(r.exit == 0, "setup-create", str(r))
    start = sym.choose("highest_existing", [9998, 9999, 10000, 99999])
    b.renumber_generation("R", b.manifest_names("R")[0], start)
    for i in range(3):
        before = state(b, ["R"])
        now = b.current_now()
        r = b.run("create", root="R", h=["md5"]) if i != 1 else b.run("create", root="R", h=["md5"], sf=["R/clip.mov"])
        b.require(r.exit == 0 and r.exc is None, "create-exit-code", "run %d after generation %d: %s" % (i, start, r))
        after = state(b, ["R"])
        added = [n for n in after["R"]["names"] if n not in before["R"]["names"]]
        b.require(len(added) == 1, "one-new-manifest-per-touched-history", str(added))
        m = NAME_RE.match(added[0])
        b.require(m is not None and int(m.group(1)) == start + i + 1, "generation-number-max-plus-one", "%s after %d" % (added[0], start + i))
        b.require(m.group(2) == "R" and m.group(3) == utc_name_part(now), "manifest-name-shape", added[0])
        nc = after["R"]["chain"]
        b.require(len(nc) == len(before["R"]["chain"]) + 1 and nc[-1].path == added[0] and int(nc[-1].seq) == start + i + 1 and
                  truth(nc[-1].c4 == b.H("c4", posixpath.join("R/ascmhl", added[0]))), "chain-one-new-entry", "%s" % nc[-1])
    r = b.run("info", root="R")
    gens = [int(m.group(1)) for m in (re.match(r"\s+Generation (\d+) ", l) for l in r.out) if m]
    b.require(r.exit == 0 and gens == [start, start + 1, start + 2, start + 3], "reload-generations-1..n", "%s" % gens)
    r = b.run("verify", root="R")
    b.require(r.exit == 0, "reload-ok", str(r))


def _harnesses(tier):
    steps_n = 2 if tier == "quick" else 3
    return [Harness("c06-append-only", scenario(tier), frontier=6, budget_s=2400,
                    what="%d create / create -sf runs (some exiting 10/11 after symbolic tree edits) over flat and nested layouts, same or "
                         "different clock second: manifests append-only, names NNNN_<folder>_<UTC>Z.mhl, chain = old entries + one matching "
                         "entry (c4 of the final bytes), reload gives 1..n" % steps_n,
                    bounds={"runs": steps_n, "layouts": "flat | child at A/AA | children at A and B", "edits": "none|alter|delete|add per step",
                            "modes": "folder | -sf root file | -sf deep file"},
                    outside=["generation numbers between 13 and 9997 and above 100002 (c06-long / c06-five-digits cover 1-14 and the 9999 -> 10000 boundary)"]),
            Harness("c06-long", long_history(tier), frontier=3, budget_s=1200,
                    what="10-12 (thorough -14) consecutive create / create -sf runs in a folder named 'A001[C002] Übung 日' (flat or with a nested history, "
                         "same or different clock second): two-digit generation numbers, chain order, names",
                    bounds={"runs": "10-12 / 10-14", "root folder name": "A001[C002] Übung 日"}, outside=[]),
            Harness("c06-zones", zones, frontier=4, budget_s=600, real_opts={"clock": "real"},
                    what="manifest names under 4 standard offsets, with / without daylight-saving rules, DST in force or not: the name carries UTC",
                    bounds={"std offsets (min)": [0, 600, -300, 330]}, outside=[]),
            Harness("c06-five-digits", five_digits, frontier=2, budget_s=600,
                    what="a history whose highest generation is 9998 / 9999 / 10000 / 99999 (reached by renumbering a committed generation): three "
                         "more runs are numbered max+1, chained, and reload in numeric order",
                    bounds={"highest existing generation": [9998, 9999, 10000, 99999]}, outside=[])]


def harnesses(tier):
    from . import tour
    return list(_harnesses(tier)) + tour.harnesses(tier, "C06")
