"""tour - command sequences over one tree (optionally with a nested history), judged by a reference ledger.

The per-property harnesses vary one feature at a time.  Realistic defects hide in the *interaction* of features (a rename
detected in one generation and an edit in the next, a pattern introduced by a -sf run, a -dr run in another format ...).
The tour explores sequences  initial create ; (mutation ; command)^K  with every choice symbolic and keeps, next to the
program, a small reference model of what the histories must contain (first recorded digest per file and format, renames,
patterns, generations).  After every command the invariants of several properties are evaluated against that ledger.

The same exploration is registered under several properties; each registration arms only the assertion family of its own
property (`family`), so that a violation is always reported under the property it breaks.
"""
import posixpath
from ..runner import Harness
from ..pse import truth
from . import common as cm
from . import c02, c06, c07, c11

TREE = {"R/a.txt": 1, "R/d/b c.txt": 2, "R/d/e/c.txt": 3, "R/N/a.txt": 4, "R/N/sub/n.txt": 5, "R/N_proxy/p.txt": 6, "R/skip.tmp": 7,
        "R/d/keep.tmp": 8}
PATTERNS = ["*.tmp", "!keep.tmp"]  # order matters: the second pattern re-includes what the first one excludes
MUTATIONS = {"quick": ["none", "alter-top", "alter-nested", "alter-kept", "delete", "add", "rename-top", "rename-nested"],
             "thorough": ["none", "alter-top", "alter-nested", "delete", "add", "rename-top", "rename-nested", "restore", "alter-kept"],
             "three": ["none", "alter-top", "rename-top", "rename-nested"]}
COMMANDS = {"quick": ["create", "create-n", "create-dr", "create-i", "create-fmt2", "create-sf-top", "create-sf-nested", "verify", "diff", "flatten"],
            "thorough": ["create", "create-n", "create-dr", "create-i", "create-fmt2", "create-sf-top", "create-sf-nested", "verify", "diff", "flatten",
                         "info", "create-dr-fmt2"],
            "three": ["create", "create-dr", "create-fmt2", "create-sf-top", "create-dr-fmt2", "verify", "flatten"]}
QUICK_FAMILIES = ["C02", "C03", "C04", "C08", "C12", "C17"]
THREE_FAMILIES = ["C04", "C17"]
FAMILIES = ["C02", "C03", "C04", "C06", "C07", "C08", "C11", "C12", "C14", "C17", "C18"]


class Gate:
    """the backend with `require` armed or not"""

    def __init__(self, b, armed):
        self._b, self._armed = b, armed

    def require(self, *a, **k):
        if self._armed:
            return self._b.require(*a, **k)

    def __getattr__(self, k):
        return getattr(self._b, k)


class Ledger:
    def __init__(self, roots):
        self.roots = sorted(roots)
        self.first = {r: {} for r in roots}  # history -> relative path -> {format: first recorded digest}
        self.pats = []
        self.renamed_ever = False

    def owner(self, path):
        return cm.owner_history(path, self.roots, "R")

    def recorded(self):
        for h in self.roots:
            for rel in self.first[h]:
                yield h, rel, posixpath.normpath(posixpath.join(h, rel))


def tour(menu, family, K):
    def fn(b, sym):
        import os
        G = {f: Gate(b, f == family or bool(os.environ.get("VERIF_TOUR_ALL"))) for f in FAMILIES}  # VERIF_TOUR_ALL: development only

        def req(fam, cond, aid, detail=""):
            G[fam].require(cond, aid, detail)

        def on(fam):
            return G[fam]._armed

        for f, c in TREE.items():
            b.mkfile(f, c)
        b.mkdir("R/z")
        nested = sym.flag("nested_history_at_N")
        roots = ["R"] + (["R/N"] if nested else [])
        L = Ledger(roots)
        # the nested history is sealed with md5 first: the parent run then brings formats that are new for its files
        F0 = ["xxh64", "c4"] if nested else ["md5"]
        F2 = ["sha1"] if nested else ["xxh64"]
        log = []

        def ignored():
            return cm.make_ignored(cm.DEFAULT_IGNORES + L.pats, "R")

        def is_ignored(p):
            return ignored()(p, False)

        def same_as_first(h, rel):
            """does the file on disk still have the content that was first recorded?"""
            fm = sorted(L.first[h][rel])[0]
            return truth(b.H(fm, posixpath.normpath(posixpath.join(h, rel))) == L.first[h][rel][fm])

        def discrepancies():
            missing, failed, new = [], [], []
            for h, rel, p in L.recorded():
                if is_ignored(p):
                    continue
                if not b.exists(p):
                    missing.append(p)
                elif L.first[h][rel] and not same_as_first(h, rel):
                    failed.append(p)
            exp = cm.expected_records(b, "R", L.roots, ignored(), with_dirs=False)
            for h in exp:
                for rel in exp[h]:
                    if rel not in L.first[h]:
                        new.append(posixpath.normpath(posixpath.join(h, rel)))
            return sorted(missing), sorted(failed), sorted(new)

        def check_exit(r, codes, tag, named=()):
            codes = sorted(set(codes))
            if not codes:
                req("C03", r.exit == 0 and r.exc is None, "tour-no-discrepancy-exit-0", "%s: exit %s exc %s | %s" % (tag, r.exit, r.exc, (r.err + r.out)[-3:]))
            else:
                req("C03", r.exit in codes, "tour-discrepancy-exit-code", "%s: exit %s exc %s, expected one of %s" % (tag, r.exit, r.exc, codes))
            text = r.out + r.err
            for p in named:
                req("C03", any(cm.names_path(l, cm.rel_to(p, "R")) or cm.names_path(l, posixpath.basename(p)) for l in text),
                    "tour-affected-path-named", "%s: %s is not named in the output" % (tag, cm.rel_to(p, "R")))

        def check_entries(h, rel, rec, reqf, tag, renamed_now):
            """C04 oracle for one file record; updates the ledger"""
            p = posixpath.normpath(posixpath.join(h, rel))
            first = L.first[h].get(rel)
            cur = {e.fmt: b.H(e.fmt, p) for e in rec.entries}
            seen = [e.fmt for e in rec.entries]
            req("C04", len(seen) == len(set(seen)), "tour-duplicate-format-entry", "%s %s: %s" % (tag, p, seen))
            for e in rec.entries:
                req("C02", truth(e.digest == cur[e.fmt]), "tour-record-digest-wrong", "%s %s %s" % (tag, p, e.fmt))
            failed = False
            if renamed_now:
                pass  # the generation that detects the rename: judged by C17's assertions only
            elif first is None:
                for e in rec.entries:
                    req("C04", e.action == "original", "tour-new-file-original", "%s %s %s: %s" % (tag, p, e.fmt, e.action))
                req("C04", sorted(seen) == sorted(reqf), "tour-new-file-formats", "%s %s: %s requested %s" % (tag, p, seen, reqf))
                L.first[h][rel] = {}
            else:
                old_ok = False
                for e in rec.entries:
                    req("C04", e.action != "original", "tour-original-only-first", "%s %s %s marked original again" % (tag, p, e.fmt))
                    if e.fmt in first:
                        same = truth(cur[e.fmt] == first[e.fmt])
                        failed = failed or not same
                        old_ok = old_ok or same
                        req("C04", e.action == ("verified" if same else "failed"), "tour-action-vs-first-recorded",
                            "%s %s %s: %s, expected %s" % (tag, p, e.fmt, e.action, "verified" if same else "failed"))
                req("C04", any(f in first for f in seen), "tour-history-consulted", "%s %s: no already recorded format among %s" % (tag, p, seen))
                for e in rec.entries:
                    if e.fmt not in first:
                        req("C04", e.action == "verified" and old_ok and not failed, "tour-new-format-needs-verified-old",
                            "%s %s: new format %s recorded as %s (old verified %s, failed %s)" % (tag, p, e.fmt, e.action, old_ok, failed))
                for f in reqf:
                    if f in first:
                        req("C04", f in seen, "tour-requested-format-recorded", "%s %s %s" % (tag, p, f))
                    else:
                        req("C04", (f in seen) == (not failed), "tour-new-format-iff-verified", "%s %s %s recorded=%s failed=%s" % (tag, p, f, f in seen, failed))
            for e in rec.entries:
                if not failed or e.fmt in L.first[h][rel]:
                    L.first[h][rel].setdefault(e.fmt, cur[e.fmt])
            return failed

        def do_create(tag, reqf, n=False, dr=False, pats=(), sf=None):
            live = [x for x in L.roots if b.exists(x)]
            before = c06.state(b, live) if on("C06") else None
            snap = b.snapshot("") if on("C14") else {}
            now = b.current_now()
            names_before = {x: b.manifest_names(x) for x in live}
            kw = dict(root="R", h=reqf)
            if n:
                kw["n"] = True
            if dr:
                kw["dr"] = True
            if pats:
                kw["i"] = list(pats)
            if sf:
                kw["sf"] = [sf]
            r = b.run("create", **kw)
            tag = "%s -> exit %s" % (tag, r.exit)
            b.note(tag)
            for p_ in pats:
                if p_ not in L.pats:
                    L.pats.append(p_)
            ign = ignored()
            req("C03", r.exc is None or r.exit >= 10, "tour-no-internal-error", "%s exc %s" % (tag, r.exc))
            # ---- which histories wrote a generation (C08), how (C06), and nothing else (C14)
            scope = set(live) if sf is None else {x for x in live if cm.under(sf, x)}
            if on("C06"):
                c06.check_step(G["C06"], before, c06.state(b, live), scope, now, tag)
            _, news = c02.new_manifests(b, None, names_before, "R")
            writers = {x for x in live if news.get(x)}
            req("C08", writers == scope, "tour-histories-with-new-generation", "%s: wrote %s expected %s" % (tag, sorted(writers), sorted(scope)))
            folders = [b.p(posixpath.join(x, "ascmhl")) for x in scope]
            for o in r.ops:
                for t in [x for x in o[1:] if isinstance(x, str)]:
                    req("C14", any(t == f or t.startswith(f + "/") for f in folders), "tour-create-wrote-outside-ascmhl-folders", "%s: %s" % (tag, o))
            snap2 = b.snapshot("") if on("C14") else {}
            for p_ in snap:
                if "ascmhl" in p_.split("/"):
                    continue
                req("C14", p_ in snap2 and truth(b.same_node(snap[p_], snap2[p_])), "tour-entry-modified", "%s: %s" % (tag, p_))
            if any(len(news.get(x, [])) != 1 for x in scope):
                return r
            # ---- rename detection (C17): a missing recorded file whose first digest equals that of a file on disk in the same history
            renames = {}
            if dr and sf is None:
                for h, rel, p in list(L.recorded()):
                    if is_ignored(p) or b.exists(p):
                        continue
                    if not L.first[h][rel]:
                        continue
                    fm = sorted(L.first[h][rel])[0]
                    for q in b.walk_files(h):
                        if "ascmhl" in q.split("/") or L.owner(q) != h or ign(q, False):
                            continue
                        if truth(b.H(fm, q) == L.first[h][rel][fm]) and q != p:
                            renames[(h, rel)] = cm.rel_to(q, h)
            for (h, rel), newrel in renames.items():
                # the tool keeps digests per path: under its new path the file is known in the formats recorded there (those of the
                # generation that detects the rename, whose digests were just compared with the former record), not in the old ones
                L.first[h].pop(rel)
                L.first[h].setdefault(newrel, {})
                L.renamed_ever = True
            # ---- records (C02 / C08 partition / C12 exclusion) and their entries (C04)
            if sf is None:
                expected = cm.expected_records(b, "R", live, ign)
            else:
                own = L.owner(sf)
                expected = {x: {} for x in scope}
                expected[own][cm.rel_to(sf, own)] = "file"
            for fam in ("C02", "C08", "C12"):
                if G[fam]._armed:
                    try:
                        c02.check_records(G[fam], "R", [], sorted(scope), news, expected, sizes=(fam == "C02"), tag=tag + ": ")
                    except KeyError:
                        pass
            failed_files = []
            for h in sorted(scope):
                m = news[h][0]
                for rec in m.files():
                    p = posixpath.normpath(posixpath.join(h, rec.path))
                    if rec.path not in expected.get(h, {}) or not b.exists(p):
                        continue
                    ren = [k for k, v in renames.items() if k[0] == h and v == rec.path]
                    if ren:
                        req("C17", rec.previous_path == ren[0][1], "tour-previous-path", "%s: %s has previousPath %r, expected %r" % (tag, p, rec.previous_path, ren[0][1]))
                    else:
                        req("C17", rec.previous_path is None, "tour-unmoved-file-no-previous-path", "%s: %s has previousPath %r" % (tag, p, rec.previous_path))
                    if check_entries(h, rec.path, rec, reqf, tag, bool(ren)):
                        failed_files.append(p)
                # patterns accumulate, in order, without duplicates (C12)
                got = m.ignore or []
                mine = [x for x in got if x not in cm.DEFAULT_IGNORES]
                req("C12", mine == L.pats, "tour-pattern-list", "%s: history %s lists %s, expected %s" % (tag, h, got, L.pats))
                # directory hashes follow the definition (C07)
                if sf is None and not n and on("C07"):
                    c07.check_dirhashes(G["C07"], m, h, reqf, cm.make_ignored(cm.DEFAULT_IGNORES + L.pats, h), tag + " history " + h)
            # ---- parent manifests reference the children's new manifests (C08)
            if "R/N" in scope and "R" in scope:
                refs = news["R"][0].references or []
                child = news["R/N"][0]
                exp_path = posixpath.join("N/ascmhl", child.file)
                hit = [c for (pth, c) in refs if pth == exp_path]
                req("C08", len(hit) == 1, "tour-parent-references-child", "%s: references %s, expected %s" % (tag, [x[0] for x in refs], exp_path))
                if hit:
                    req("C08", truth(hit[0] == b.H("c4", posixpath.join("R/N/ascmhl", child.file))), "tour-reference-c4", tag)
            # ---- exit code (C03 / C17)
            missing, _, _ = discrepancies()
            if sf is not None:
                missing = []
            codes = ([10] if missing else []) + ([11] if failed_files else [])
            check_exit(r, codes, tag, named=missing + failed_files)
            if dr and renames and not missing and not failed_files:
                req("C17", r.exit == 0, "tour-create-dr-exit-0", "%s: renames %s" % (tag, renames))
            if on("C11"):
                c11.validate_everything(G["C11"], tag)
            return r

        def do_readonly(cmd, tag):
            snap = b.snapshot("") if on("C14") else {}
            missing, failed, new = discrepancies()
            r = b.run(cmd, root="R")
            tag = "%s -> exit %s" % (tag, r.exit)
            b.note(tag)
            req("C14", r.ops == [], "tour-read-only-command-wrote", "%s: %s" % (tag, r.ops[:3]))
            snap2 = b.snapshot("") if on("C14") else {}
            req("C14", sorted(snap) == sorted(snap2) and all(truth(b.same_node(snap[x], snap2[x])) for x in snap), "tour-entry-modified", tag)
            req("C03", r.exc is None or r.exit >= 10, "tour-no-internal-error", "%s exc %s" % (tag, r.exc))
            if cmd == "verify":
                check_exit(r, ([10] if missing else []) + ([11] if failed else []) + ([21] if new else []), tag, named=missing + failed + new)
            elif cmd == "diff":
                check_exit(r, ([10] if missing else []) + ([21] if new else []), tag, named=missing + new)
            else:
                req("C03", r.exit == 0, "tour-info-exit-0", tag)
            return r

        def do_flatten(tag, i):
            snap = b.snapshot("") if on("C14") else {}
            dest = "OUT%d" % i
            r = b.run("flatten", root="R", dest=dest)
            tag = "%s -> exit %s" % (tag, r.exit)
            b.note(tag)
            snap2 = b.snapshot("") if on("C14") else {}
            for p_ in snap:
                req("C14", p_ in snap2 and truth(b.same_node(snap[p_], snap2[p_])), "tour-flatten-modified-source", "%s: %s" % (tag, p_))
            if on("C11"):
                c11.validate_everything(G["C11"], tag)
            if nested or L.renamed_ever:
                return r
            req("C18", r.exit == 0 and r.exc is None, "tour-flatten-exit-0", "%s exc %s" % (tag, r.exc))
            pl = [p_ for p_ in b.walk_files(dest) if posixpath.basename(p_).startswith("packinglist_")]
            req("C18", len(pl) == 1, "tour-one-packing-list", "%s: %s" % (tag, pl))
            if len(pl) != 1:
                return r
            m = b.read_manifest_at(pl[0])
            got = {rec.path: rec for rec in m.records}
            req("C18", not m.dirs(), "tour-flatten-no-directory-records", tag)
            req("C18", sorted(got) == sorted(L.first["R"]), "tour-flatten-paths", "%s: %s vs ever recorded %s" % (tag, sorted(got), sorted(L.first["R"])))
            for rel, rec in got.items():
                exp = L.first["R"].get(rel, {})
                fm = [e.fmt for e in rec.entries]
                req("C18", sorted(fm) == sorted(exp), "tour-flatten-formats", "%s %s: %s vs %s" % (tag, rel, fm, sorted(exp)))
                for e in rec.entries:
                    if e.fmt in exp:
                        req("C18", truth(e.digest == exp[e.fmt]), "tour-flatten-earliest-digest", "%s %s %s" % (tag, rel, e.fmt))
            return r

        # ---------------------------------------------------------------- the sequence
        if nested:
            r = b.run("create", root="R/N", h=["md5"])
            b.require(r.exit == 0, "setup-create", str(r))
            for rec in b.manifests("R/N")[-1].files():
                L.first["R/N"][rec.path] = {e.fmt: e.digest for e in rec.entries}
        do_create("initial create -h %s" % "+".join(F0), F0)
        current = dict(TREE)
        for i in range(K):
            mut = sym.choose("mutation%d" % i, MUTATIONS[menu])
            applicable = True
            if mut == "alter-top":
                applicable = b.exists("R/a.txt")
                if applicable:
                    b.alter("R/a.txt", 11 + i)
            elif mut == "alter-nested":
                tgt = "R/N/a.txt" if b.exists("R/N/a.txt") else "R/N/sub/a.txt"
                b.alter(tgt, 14 + i)
            elif mut == "delete":
                applicable = b.exists("R/d/b c.txt")
                if applicable:
                    b.delete("R/d/b c.txt")
            elif mut == "alter-kept":
                b.alter("R/d/keep.tmp", 18 + i)
            elif mut == "add":
                b.mkfile("R/d/new%d.txt" % i, 20 + i)
                b.mkfile("R/N/sub/new%d.txt" % i, 30 + i)
            elif mut == "rename-top":
                applicable = b.exists("R/a.txt")
                if applicable:
                    b.rename("R/a.txt", "R/d/a moved.txt")
            elif mut == "rename-nested":
                applicable = b.exists("R/N/a.txt")
                if applicable:
                    b.rename("R/N/a.txt", "R/N/sub/a.txt")
            elif mut == "restore":
                applicable = b.exists("R/a.txt") and i > 0
                if applicable:
                    b.alter("R/a.txt", 1)
            if not applicable:
                sym.assume(False)
            # read-only commands leave no state behind: they are explored as the last step only
            cmd = sym.choose("command%d" % i, [c for c in COMMANDS[menu] if i == K - 1 or (c.startswith("create") and (menu != "three" or c != "create-dr-fmt2"))])
            tag = "step %d: %s; %s" % (i + 1, mut, cmd)
            if cmd == "create":
                do_create(tag, F0)
            elif cmd == "create-n":
                do_create(tag, F0, n=True)
            elif cmd == "create-dr":
                do_create(tag, F0, dr=True)
            elif cmd == "create-dr-fmt2":
                do_create(tag, F2, dr=True)
            elif cmd == "create-i":
                do_create(tag, F0, pats=PATTERNS)
            elif cmd == "create-fmt2":
                do_create(tag, F2)
            elif cmd == "create-sf-top":
                do_create(tag, F0, sf="R/d/e/c.txt" if i % 2 else ("R/a.txt" if b.exists("R/a.txt") else "R/d/a moved.txt"))
            elif cmd == "create-sf-nested":
                do_create(tag, F0, sf="R/N/sub/n.txt")
            elif cmd in ("verify", "diff", "info"):
                do_readonly(cmd, tag)
            elif cmd == "flatten":
                do_flatten(tag, i)
        # closing: whatever happened, verify judges the tree against the ledger, and one more folder-mode generation records
        # exactly the tree (state that an earlier command corrupted silently shows up in what the next run does)
        do_readonly("verify", "closing verify")
        do_create("closing create", F0)
    return fn


def _harness(name, menu, family, K):
    return Harness(name, tour(menu, family, K), frontier=6, budget_s=2400, conformance=3,
                   what="tour: initial create, then %d x (mutation; command) with every choice symbolic, on a tree with an optional nested history; "
                        "a reference ledger (first recorded digest per file and format, renames, patterns) is kept next to the program and the "
                        "%s assertions are evaluated after every command" % (K, family),
                   bounds={"steps": K, "mutations": MUTATIONS[menu], "commands": COMMANDS[menu], "tree": sorted(TREE) + ["R/z/"],
                           "formats": "flat: md5, later xxh64 | nested history md5, parent xxh64+c4, later sha1"},
                   outside=["sequences longer than %d steps" % K, "directory renames / deletions", "renames across history boundaries"])


def harnesses(tier, family):
    """quick: two steps for the families whose assertions depend most on earlier steps; thorough: two steps for every family (the
    larger menus for those six), three steps with a reduced menu for C04 and C17"""
    out = []
    if tier == "quick":
        if family in QUICK_FAMILIES:
            out.append(_harness("%s-tour" % family.lower(), "quick", family, 2))
    else:
        out.append(_harness("%s-tour" % family.lower(), "thorough" if family in QUICK_FAMILIES else "quick", family, 2))
        if family in THREE_FAMILIES:
            out.append(_harness("%s-tour3" % family.lower(), "three", family, 3))
    return out
