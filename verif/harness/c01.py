"""C01 - File digests are the standard algorithms over the exact file bytes."""
import builtins
import z3
from ..runner import Harness
from ..pse import truth, SymInt
from .. import pse
from ..backend import c4_encode, C4_CHARSET, real_digest

MIB = 1024 * 1024
LIB7 = ["c4", "md5", "sha1", "xxh128", "xxh3", "xxh32", "xxh64"]
CLI6 = ["c4", "md5", "sha1", "xxh128", "xxh3", "xxh64"]
LAYOUTS = ["dense", "hole-start", "hole-middle", "hole-end"]


def loops(max_n, subsets):
    def fn(b, sym):
        import ascmhl.hasher as HA
        # how the bytes lie on the medium (a sparse file's holes read as zeros): the modelled file system has no such notion - a file is
        # its bytes - so the choice only shapes the real files of replays, conformance runs and the witness corpus
        layout = sym.choose("physical_layout", LAYOUTS)
        n = sym.int("n", 0, max_n)
        if layout != "dense":
            sym.assume(n >= 600 * 1024)  # (smaller files are laid out densely anyway: they are covered by the dense case)
        if not b.real:
            b.world.max_reads = 40 * (max_n // MIB + 3)
        b.mkfile("R/f.bin", 7, size=n, layout=layout)
        path = b.p("R/f.bin")
        exp = {f: b.H(f, "R/f.bin") for f in LIB7}
        # streaming single-format entry point
        for f in LIB7:
            got = HA.hash_file(path, f)
            b.require(truth(got == exp[f]), "hash_file", "format %s: single-format loop result differs from %s of the whole file" % (f, f))
        # read-once multi-format entry point, any non-empty subset
        if subsets == "all":
            sel = [f for f in LIB7 if sym.flag("use_" + f)]
            if not sel:
                sym.assume(False)
        else:
            sel = sym.choose("subset", subsets)
        got = HA.multiple_format_hash_file(path, list(sel))
        b.require(isinstance(got, dict) and sorted(got.keys()) == sorted(sel), "multi-format-keys", "%s vs %s" % (sorted(got), sorted(sel)))
        for f in sel:
            b.require(truth(got[f] == exp[f]), "multiple_format_hash_file", "format %s in pass over %s" % (f, sel))
        got2 = HA.AggregateHasher.hash_file(path, list(sel))
        for f in sel:
            b.require(truth(got2[f] == exp[f]), "AggregateHasher.hash_file", "format %s" % f)
        # unknown / empty names raise
        for bad in ("", "sha256", None):
            try:
                HA.new_hasher_for_hash_type(bad)
                ok = False
            except (ValueError, KeyError):
                ok = True
            b.require(ok, "unknown-format-raises", repr(bad))
    return fn


SMALL = [1, 3, 4, 8, 9, 16, 17, 32, 55, 56, 63, 64, 65, 111, 112, 127, 128, 129, 200, 240, 241, 256, 1023, 1024]


def small_sizes(b, sym):
    """file lengths at the internal thresholds of the algorithms (xxh3: 16 / 128 / 240 bytes, md5 / sha1: 55 / 64, sha512: 111 / 128):
    the model treats every digest as one uninterpreted function of the bytes, so the value of these paths is in their real replays
    (every one of them is replayed on the real program, and all are in the witness corpus)"""
    import ascmhl.hasher as HA
    n = sym.choose("n", SMALL)
    sel = sym.choose("formats_in_one_pass", [LIB7, ["xxh128", "xxh3"], ["xxh3", "xxh64", "xxh32"], ["md5", "sha1", "c4"]])
    b.mkfile("R/s.bin", 12, size=n)
    path = b.p("R/s.bin")
    got = HA.multiple_format_hash_file(path, list(sel))
    got2 = HA.AggregateHasher.hash_file(path, list(sel))
    for f in sel:
        b.require(truth(got[f] == b.H(f, "R/s.bin")), "multiple_format_hash_file", "format %s in one pass over %s, %d bytes" % (f, sel, n))
        b.require(truth(got2[f] == b.H(f, "R/s.bin")), "AggregateHasher.hash_file", "format %s in one pass over %s, %d bytes" % (f, sel, n))
        b.require(truth(HA.hash_file(path, f) == b.H(f, "R/s.bin")), "hash_file", "format %s, %d bytes" % (f, n))
    r = b.run("create", root="R", h=[f for f in sel if f != "xxh32"])
    b.require(r.exit == 0 and r.exc is None, "create-exit-0", str(r))
    rec = b.manifests("R")[-1].record("s.bin")
    for e in rec.entries:
        b.require(truth(e.digest == b.H(e.fmt, "R/s.bin")), "create-digest", "%s, %d bytes" % (e.fmt, n))


def oneshot(b, sym):
    """one-shot library entry points on literal data and the decode helpers"""
    import ascmhl.hasher as HA
    data = sym.choose("data", [b"", b"a", b"media hash list", bytes(range(256)) * 5])
    for f in LIB7:
        exp = b.Hbytes(f, data)
        b.require(truth(HA.hash_data(data, f) == exp), "hash_data", f)
        b.require(truth(HA.new_hasher_for_hash_type(f).hash_data(data) == exp), "Hasher.hash_data", f)
    sel = [f for f in LIB7 if sym.flag("use_" + f)]
    if not sel:
        sym.assume(False)
    got = HA.multiple_format_hash_data(data, list(sel))
    b.require(sorted(got.keys()) == sorted(sel), "multi-format-keys", str(sel))
    for f in sel:
        b.require(truth(got[f] == b.Hbytes(f, data)), "multiple_format_hash_data", f)
    # a file with exactly these bytes hashes to the same value through the streaming entry points
    if b.real:
        import os
        p = b.p("R/lit.bin")
        os.makedirs(os.path.dirname(p), exist_ok=True)
        open(p, "wb").write(data)
        for f in LIB7:
            b.require(HA.hash_file(p, f) == real_digest(f, data), "hash_file-vs-hash_data", f)
            b.require(HA.bytes_for_hash_string(real_digest(f, data), f) == _raw(f, data), "bytes_for_hash_string", f)


def _raw(f, data):
    import hashlib, xxhash
    return {"md5": lambda: hashlib.md5(data).digest(), "sha1": lambda: hashlib.sha1(data).digest(),
            "c4": lambda: hashlib.sha512(data).digest(), "xxh32": lambda: xxhash.xxh32(data).digest(),
            "xxh64": lambda: xxhash.xxh64(data).digest(), "xxh3": lambda: xxhash.xxh3_64(data).digest(),
            "xxh128": lambda: xxhash.xxh3_128(data).digest()}[f]()


def entry_points(max_n, fsets):
    def fn(b, sym):
        layout = sym.choose("physical_layout", LAYOUTS)
        n = sym.int("n", 0, max_n)
        if layout != "dense":
            sym.assume(n >= 600 * 1024)
        if not b.real:
            b.world.max_reads = 400 * (max_n // MIB + 3)
        b.mkfile("R/clip.mov", 9, size=n, layout=layout)
        fmts = sym.choose("formats", fsets)
        order = sym.flag("reverse_h_order")
        hs = list(fmts)[::-1] if order else list(fmts)
        r = b.run("create", root="R", h=hs)
        b.require(r.exit == 0 and r.exc is None, "create-exit-0", str(r))
        ms = b.manifests("R")
        rec = ms[-1].record("clip.mov")
        b.require(rec is not None, "file-recorded", "")
        for f in fmts:
            e = rec.entry(f)
            b.require(e is not None and truth(e.digest == b.H(f, "R/clip.mov")), "create-digest", f)
        r = b.run("verify", root="R")
        b.require(r.exit == 0 and r.exc is None, "verify-untouched-exit-0", "n=%s: %s" % ("sym" if isinstance(n, SymInt) else n, r))
        f = sym.choose("hash_cmd_format", CLI6)
        r = b.run("hash", file="R/clip.mov", h=f)
        b.require(r.exit == 0, "hash-exit-0", str(r))
        lines = [l for l in r.out if " = " in l]
        b.require(len(lines) == 1 and lines[0].startswith(f + " (") and b.p("R/clip.mov") in lines[0], "hash-output-shape", str(r.out))
        got = b.digest_after(lines[0], " = ")
        b.require(truth(got == b.H(f, "R/clip.mov")), "hash-command-digest", f)
        # the digest verify computes is that of the bytes the file has NOW (whatever size was recorded)
        b.alter("R/clip.mov", 10, n + 5)
        r = b.run("verify", root="R")
        b.require(r.exit == 11, "verify-sees-current-bytes", "file recorded with %s bytes, now 5 bytes longer with other content: verify exits %s"
                  % ("n" if isinstance(n, SymInt) else n, r.exit))
    return fn


# ------------------------------------------------------------------------------------------------ C4 codec
def codec(sym):
    """real C4.string_digest / bytes_from_string_digest on a symbolic 512-bit value"""
    import ascmhl.hasher as HA
    from .. import symstr
    v = sym.int("v", 0, 2 ** 512 - 1)
    real_charset = HA.C4.charset
    pse.require(real_charset == C4_CHARSET, "c4-alphabet", "C4.charset differs from the published alphabet")
    if not sym.symbolic:
        class FakeSha:
            def hexdigest(self):
                return format(v, "0128x")
        c = HA.C4.__new__(HA.C4)
        c.hasher = FakeSha()
        s = c.string_digest()
        pse.require(s == c4_encode(v.to_bytes(64, "big")), "c4-encode-spec", "v=%d -> %r" % (v, s))
        pse.require(HA.C4.bytes_from_string_digest(s) == v.to_bytes(64, "big"), "c4-decode-roundtrip", "v=%d" % v)
        return
    symstr.reset()
    saved_int = HA.__dict__.get("int")
    HA.int = lambda x, base=10: x.v if isinstance(x, symstr.HexTok) else builtins.int(x, base)
    HA.C4.charset = symstr.SymCharset(real_charset)
    try:
        class FakeSha:
            def hexdigest(self):
                return symstr.HexTok(v)
        c = HA.C4.__new__(HA.C4)
        c.hasher = FakeSha()
        s = c.string_digest()
        pse.require(isinstance(s, str), "c4-is-str", type(s).__name__)
        pse.require(len(s) == 90, "c4-length-90", "length %d" % len(s))
        pse.require(s[0] == "c" and s[1] == "4", "c4-prefix", "")
        acc = 0
        for ch in s[2:]:
            d = symstr.char_value(ch)
            if d is not None:
                pse.require(truth(pse.SymBool(z3.And(d.z >= 0, d.z < 58))), "c4-digit-range", "")
            else:
                pse.require(ch in C4_CHARSET, "c4-char-in-alphabet", repr(ch))
                d = C4_CHARSET.index(ch)
            acc = acc * 58 + d
        pse.require(truth(acc == v), "c4-encode-spec", "sum d_i*58^(87-i) != v")
        raw = HA.C4.bytes_from_string_digest(s)
        if isinstance(raw, bytes):  # no symbolic digit on this path (v == 0)
            pse.require(len(raw) == 64 and truth(v == int.from_bytes(raw, "big")), "c4-decode-roundtrip", "concrete path")
        else:
            pse.require(isinstance(raw, symstr.BytesVal) and raw.n == 64 and raw.byteorder == "big", "c4-decode-shape", "")
            pse.require(truth(raw.v == v), "c4-decode-roundtrip", "decode(encode(v)) != v")
    finally:
        HA.C4.charset = real_charset
        if saved_int is None:
            del HA.int
        else:
            HA.int = saved_int


def order_lemma(sym):
    """fixed-width base-58 text order == numeric order (needed where c4 strings are sorted): one z3 query,
    plus the concrete check that the alphabet is strictly increasing in code-point order"""
    import ascmhl.hasher as HA
    cs = HA.C4.charset
    pse.require(all(cs[i] < cs[i + 1] for i in range(len(cs) - 1)), "c4-alphabet-increasing", "")
    pse.require("1" == cs[0], "c4-zero-digit", "")
    if not sym.symbolic:
        a, b_ = sym.int("a", 0, 2 ** 512 - 1), sym.int("b", 0, 2 ** 512 - 1)
        ea, eb = c4_encode(a.to_bytes(64, "big")), c4_encode(b_.to_bytes(64, "big"))
        pse.require((a < b_) == (ea < eb), "c4-order", "")
        return
    N = 88
    d = [z3.Int("d%d" % i) for i in range(N)]
    e = [z3.Int("e%d" % i) for i in range(N)]
    s = z3.Solver()
    s.set("timeout", 120000)
    for x in d + e:
        s.add(x >= 0, x < 58)
    val = lambda v: z3.Sum([v[i] * (58 ** (N - 1 - i)) for i in range(N)])
    lex = z3.BoolVal(False)
    for i in reversed(range(N)):
        lex = z3.Or(d[i] < e[i], z3.And(d[i] == e[i], lex))
    s.add(lex, val(d) >= val(e))
    r = s.check()
    eng = pse.cur()
    eng.queries += 1
    if r == z3.unknown:
        raise pse.HarnessError("order lemma: unknown")
    pse.require(r == z3.unsat, "c4-order", "lexicographically smaller c4 text with numerically >= value exists")
    # make the path non-trivial for the evidence counters: a and b symbolic, encode both is covered by `codec`
    a = sym.int("a", 0, 2 ** 512 - 1)
    truth(a == 0)


def harnesses(tier):
    hs = _harnesses(tier)
    if tier != "quick":
        from .xh_common import second_engine
        for f in ("single_loop_covers", "aggregate_loop_covers"):
            hs.append(Harness("c01-crosshair-" + f.split("_")[0], second_engine(f, ["n"]), mode="unit", frontier=1, budget_s=600, twin_paths=1,
                              conformance=0, what="second, independent engine: CrossHair on the real chunk loop (%s), 0 <= n <= 8 MiB+1; "
                                                  "a refutation is replayed concretely; 'not confirmed' is only noted" % f,
                              bounds={"n": "0..8 MiB+1", "per-condition timeout": "60 s"}, outside=[]))
    return hs


def nested_same_relpath(b, sym):
    """create over nested histories whose files share history-relative paths and sizes: every recorded digest is that file's digest"""
    files = {"R/Clips/shot.mov": 1, "R/A002/Clips/shot.mov": 2, "R/A002/B/Clips/shot.mov": 3, "R/other.mov": 4}
    for f, c in files.items():
        b.mkfile(f, c, size=7)
    layout = sym.choose("nested_histories", [["R/A002"], ["R/A002/B", "R/A002"], ["R/A002/B"]])
    fm = sym.choose("formats", [["md5"], ["c4", "xxh64"]])
    for c in layout:
        r = b.run("create", root=c, h=fm)
        b.require(r.exit == 0, "create-exit-0", str(r))
    r = b.run("create", root="R", h=fm)
    b.require(r.exit == 0 and r.exc is None, "create-exit-0", str(r))
    import posixpath
    for hr in ["R"] + layout:
        m = b.manifests(hr)[-1]
        for rec in m.files():
            f = posixpath.join(hr, rec.path)
            for e in rec.entries:
                b.require(truth(e.digest == b.H(e.fmt, f)), "create-digest", "%s %s in history %s" % (rec.path, e.fmt, hr))
    r = b.run("verify", root="R")
    b.require(r.exit == 0, "verify-untouched-exit-0", str(r))
    if sym.flag("then_rename_and_detect_with_another_format"):
        import posixpath
        for f in list(files):
            if f.endswith("Clips/shot.mov"):
                b.rename(f, posixpath.join(posixpath.dirname(f), "shot_v2.mov"))
        other = ["sha1"] if "md5" in fm else ["md5"]
        r = b.run("create", root="R", h=other, dr=True)
        b.require(r.exit == 0 and r.exc is None, "create-exit-0", "create -dr -h %s after renaming the same-named files: %s" % (other, r))
        for hr in ["R"] + layout:
            m = b.manifests(hr)[-1]
            for rec in m.files():
                f = posixpath.join(hr, rec.path)
                for e in rec.entries:
                    b.require(truth(e.digest == b.H(e.fmt, f)), "create-digest", "after rename detection: %s %s in history %s" % (rec.path, e.fmt, hr))


def _harnesses(tier):
    quick = tier == "quick"
    max_n = (3 if quick else 16) * MIB + 1
    subs = [["md5"], ["c4", "xxh64"], ["xxh32", "sha1", "xxh3"], LIB7] if quick else "all"
    fsets = [["md5"], ["xxh64", "c4"], CLI6] if quick else [["md5"], ["sha1"], ["xxh128"], ["xxh3"], ["xxh64"], ["c4"], ["xxh64", "c4"], ["md5", "sha1", "xxh128"], CLI6]
    out = ["the digest algorithms and the hex codec themselves (C code in OpenSSL/xxhash/binascii)",
           "file lengths above %d bytes" % max_n]
    return [
        Harness("c01-loops", loops(max_n, subs), frontier=3, budget_s=1500,
                what="Hasher.hash_file for all 7 formats and AggregateHasher.hash_file/multiple_format_hash_file for %s subsets, file length symbolic"
                     % ("all 127" if subs == "all" else len(subs)),
                bounds={"file length n": "0..%d (every value; read size taken from the real call)" % max_n, "subsets": subs},
                outside=out, stubs=["open() of the hashed file: reader whose read(k) returns the byte range [pos, pos+min(k, n-pos))"]),
        Harness("c01-small", small_sizes, frontier=4, budget_s=600, conformance=96,
                what="24 file lengths at the internal thresholds of the algorithms x 4 sets of formats computed in one pass: library entry points and create",
                bounds={"n": SMALL, "format sets": 4}, outside=out),
        Harness("c01-oneshot", oneshot, frontier=4, budget_s=600,
                what="hash_data / Hasher.hash_data / multiple_format_hash_data on literal data, all 7 formats, all 127 subsets",
                bounds={"data": "4 literal byte strings (the model treats literal bytes as opaque ids)"}, outside=out),
        Harness("c01-entry", entry_points(max_n if not quick else 2 * MIB + 1, fsets), frontier=4, budget_s=1500,
                what="create -h F.. then verify then `hash` on one file of symbolic length: recorded/printed digests = standard digest of the file",
                bounds={"file length n": "0..%d" % (max_n if not quick else 2 * MIB + 1), "format sets": fsets}, outside=out),
        Harness("c01-nested", nested_same_relpath, frontier=3, budget_s=600,
                what="create over nested histories whose files share history-relative paths and sizes (no digest may be taken over from another file)",
                bounds={"layouts": 3, "formats": "md5 | c4+xxh64"}, outside=out),
        Harness("c01-codec", codec, mode="unit", frontier=3, budget_s=900,
                what="real C4.string_digest and C4.bytes_from_string_digest on a symbolic 512-bit value (89 loop exits)",
                bounds={"v": "0 <= v < 2^512 (all values)", "unwinding": "at most 88 digits: the 89th iteration is infeasible"},
                outside=["sha512 itself"], stubs=["C4.charset -> SymCharset (indexing by a symbolic digit yields a symbolic character)",
                                                 "int(hexdigest,16) -> the 512-bit symbolic value", "int.to_bytes -> symbolic bytes value"]),
        Harness("c01-order", order_lemma, mode="unit", frontier=2, budget_s=300, twin_paths=2,
                what="lemma: for 88-digit base-58 strings lexicographic order = numeric order (z3: counterexample query unsat); alphabet strictly increasing",
                bounds={"digits": 88}, outside=[]),
    ]
