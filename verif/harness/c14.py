"""C14 - Commands touch nothing beyond what they document."""
import posixpath
from ..runner import Harness
from ..pse import truth
from . import common as cm

READONLY = ["verify", "verify-sf", "verify-dh", "verify-dh-co", "verify-dh-ro", "verify-pl", "diff", "info", "info-sf", "info-v", "hash",
            "xsd-check", "xsd-check-chain"]


def same_tree(b, before, after, tag, allow_new=()):
    gone = sorted(set(before) - set(after))
    b.require(not gone, "entry-removed", "%s: %s" % (tag, gone[:4]))
    new = sorted(p for p in set(after) - set(before) if not any(p == a or p.startswith(a + "/") for a in allow_new))
    b.require(not new, "entry-created", "%s: %s" % (tag, new[:4]))
    for p in before:
        b.require(truth(b.same_node(before[p], after[p])), "entry-modified", "%s: %s" % (tag, p))


def op_targets(op):
    return [x for x in op[1:] if isinstance(x, str)]


def scenario(tier):
    def fn(b, sym):
        files = {"R/s.txt": 1, "R/A/a1.txt": 2, "R/A/AA/aa1.txt": 3, "R/B/b 1.txt": 4, "R/A/AA_proxy/p.mov": 5, "R/A_notes.txt": 6, "R/B.txt": 7}
        for f, c in files.items():
            b.mkfile(f, c)
        b.mkdir("R/z")
        layout = sym.choose("layout", [[], ["R/A/AA"], ["R/A", "R/B"]])
        for c in layout:
            r = b.run("create", root=c, h=["md5"])
            b.require(r.exit == 0, "setup-create", str(r))
        r = b.run("create", root="R", h=["md5", "c4"])
        b.require(r.exit == 0, "setup-create", str(r))
        r = b.run("flatten", root="R", dest="PL")
        b.require(r.exit == 0, "setup-flatten", str(r))
        pl = [p for p in b.walk_files("PL") if posixpath.basename(p).startswith("packinglist_")]
        b.require(len(pl) == 1, "setup-flatten", str(pl))
        roots = sorted(set(layout + ["R"]))
        pre = sym.choose("tree_state", ["unchanged", "altered", "deleted", "added", "tampered", "leftover-tmp", "renamed-case-only", "link-to-a-history-outside"])
        if pre == "altered":
            b.alter("R/A/AA/aa1.txt", 33)
        elif pre == "deleted":
            b.delete("R/B/b 1.txt")
        elif pre == "added":
            b.mkfile("R/A/new.txt", 44)
        elif pre == "leftover-tmp":
            # what an interrupted create leaves behind (C15): nobody but a create writing that very name may touch it
            b.mkfile("R/ascmhl/0009_R_2020-01-02_030405Z.mhl.tmp", 77)
        elif pre == "link-to-a-history-outside":
            # a symbolic link inside the tree that points to a folder with a history of its own outside the root: that history is not
            # part of the tree, no command started on the root may write there
            b.mkfile("EXT/card/h.txt", 20)
            r = b.run("create", root="EXT/card", h=["md5"])
            b.require(r.exit == 0, "setup-create", str(r))
            b.symlink("EXT/card", "R/A/linked card")
        elif pre == "renamed-case-only":
            b.rename("R/B/b 1.txt", "R/B/B 1.TXT")
        elif pre == "tampered":
            b.alter(posixpath.join("R/ascmhl", b.manifest_names("R")[0]), 2)
        cmd = sym.choose("command", READONLY + ["flatten", "create", "create-n", "create-sf", "create-sf-neighbour", "create-dr", "create-new-root",
                                                "create-ignoring-child"])
        if pre == "link-to-a-history-outside" and cmd in ("create", "create-dr", "create-new-root", "create-ignoring-child", "verify-dh", "verify-dh-co", "verify-dh-ro"):
            sym.assume(False)  # (directory hashes over a tree with a linked folder: the tool itself gives up with an internal error - outside the properties)
        before = b.snapshot("")
        tag = "%s on %s tree (nested: %s)" % (cmd, pre, layout)
        b.note(tag)
        if cmd in READONLY:
            manifest0 = posixpath.join("R/ascmhl", b.manifest_names("R")[-1])
            r = {"verify": lambda: b.run("verify", root="R"),
                 "verify-sf": lambda: b.run("verify", root="R", sf="R/A/AA/aa1.txt"),
                 "verify-dh": lambda: b.run("verify", root="R", dh=True),
                 "verify-dh-co": lambda: b.run("verify", root="R", dh=True, co=True),
                 "verify-dh-ro": lambda: b.run("verify", root="R", dh=True, ro=True, h="md5"),
                 "verify-pl": lambda: b.run("verify", root="R", pl=pl[0]),
                 "diff": lambda: b.run("diff", root="R"),
                 "info": lambda: b.run("info", root="R"),
                 "info-v": lambda: b.run("info", root="R", v=True),
                 "info-sf": lambda: b.run("info", root=None, sf=["R/A/AA/aa1.txt"]),
                 "hash": lambda: b.run("hash", file="R/s.txt", h="c4"),
                 "xsd-check": lambda: b.run("xsd-schema-check", file=manifest0),
                 "xsd-check-chain": lambda: b.run("xsd-schema-check", file="R/ascmhl/ascmhl_chain.xml", df=True)}[cmd]()
            tag += " exit %s exc %s" % (r.exit, r.exc)
            b.require(r.exc is None or r.exit >= 10, "no-internal-error", tag)
            b.require(r.ops == [], "read-only-command-wrote", "%s: %s" % (tag, r.ops[:4]))
            same_tree(b, before, b.snapshot(""), tag)
        elif cmd == "flatten":
            r = b.run("flatten", root="R", dest="OUT/deep")
            tag += " exit %s exc %s" % (r.exit, r.exc)
            dest = b.p("OUT")
            for o in r.ops:
                for t in op_targets(o):
                    b.require(t == dest or t.startswith(dest + "/"), "flatten-wrote-outside-destination", "%s: %s" % (tag, o))
            same_tree(b, before, b.snapshot(""), tag, allow_new=("OUT",))
        else:
            if cmd == "create-new-root":
                root, scope = "R/B" if "R/B" not in roots else "R/z", None
                r = b.run("create", root=root, h=["xxh64"])
                scope = [root] + [x for x in roots if cm.under(x, root)]
            elif cmd == "create-ignoring-child":
                # a nested history below a folder excluded by a pattern is out of scope of the run
                r = b.run("create", root="R", h=["md5"], i=["A"])
                scope = [x for x in roots if not cm.under(x, "R/A")]
            elif cmd == "create-sf-neighbour":
                # a file next to a nested history whose folder name is a prefix of the neighbour's name: the nested history is out of scope
                r = b.run("create", root="R", h=["md5"], sf=["R/A/AA_proxy/p.mov"])
                scope = [x for x in roots if cm.under("R/A/AA_proxy/p.mov", x)]
            elif cmd == "create-sf":
                r = b.run("create", root="R", h=["md5"], sf=["R/A/AA/aa1.txt"])
                scope = [x for x in roots if cm.under("R/A/AA/aa1.txt", x)]
            else:
                r = b.run("create", root="R", h=["md5"], n=(cmd == "create-n"), dr=(cmd == "create-dr"))
                scope = roots
            tag += " exit %s exc %s" % (r.exit, r.exc)
            b.require(r.exc is None or r.exit >= 10, "no-internal-error", tag)
            folders = [b.p(posixpath.join(x, "ascmhl")) for x in scope]
            for o in r.ops:
                for t in op_targets(o):
                    b.require(any(t == f or t.startswith(f + "/") for f in folders), "create-wrote-outside-ascmhl-folders", "%s: %s" % (tag, o))
                b.require(o[0] in ("mkdir", "open_w", "write", "flush", "close", "replace", "fsync", "remove"), "create-unexpected-operation", "%s: %s" % (tag, o))
            after = b.snapshot("")
            # media files and directories: content, size, name, mtime unchanged; earlier manifests untouched
            for p in before:
                if posixpath.basename(p) == "ascmhl_chain.xml" and posixpath.dirname(b.p(p)) in folders:
                    continue
                b.require(p in after, "entry-removed", "%s: %s" % (tag, p))
                b.require(truth(b.same_node(before[p], after[p])), "entry-modified", "%s: %s" % (tag, p))
            new = sorted(set(after) - set(before))
            for p in new:
                ok = (posixpath.basename(p) == "ascmhl" and b.p(p) in folders) or \
                     (posixpath.dirname(b.p(p)) in folders and (p.endswith(".mhl") or posixpath.basename(p) == "ascmhl_chain.xml"))
                b.require(ok, "create-left-other-file", "%s: %s" % (tag, p))
            nm = [p for p in new if p.endswith(".mhl")]
            if r.exit != 31:
                b.require(len(nm) == len(scope), "create-one-manifest-per-history-in-scope", "%s: %s for %s" % (tag, nm, scope))
            else:
                b.require(not new and r.ops == [], "refused-create-wrote", tag)
    return fn


def unsealed(b, sym):
    """read-only commands on a tree whose root has no history (yet): they fail or succeed, but write nothing"""
    b.mkfile("R/a.txt", 1)
    b.mkfile("R/d/b.txt", 2)
    b.mkdir("R/z")
    if sym.flag("child_history_at_d"):
        r = b.run("create", root="R/d", h=["md5"])
        b.require(r.exit == 0, "setup-create", str(r))
    if sym.flag("empty_ascmhl_folder"):
        pass
    cmd = sym.choose("command", ["verify", "verify-sf", "verify-dh", "verify-dh-co", "verify-dh-ro", "verify-dh-h", "diff", "info", "info-sf", "hash"])
    before = b.snapshot("")
    r = {"verify": lambda: b.run("verify", root="R"),
         "verify-sf": lambda: b.run("verify", root="R", sf="R/a.txt"),
         "verify-dh": lambda: b.run("verify", root="R", dh=True),
         "verify-dh-co": lambda: b.run("verify", root="R", dh=True, co=True),
         "verify-dh-ro": lambda: b.run("verify", root="R", dh=True, ro=True),
         "verify-dh-h": lambda: b.run("verify", root="R", dh=True, h="md5"),
         "diff": lambda: b.run("diff", root="R"),
         "info": lambda: b.run("info", root="R"),
         "info-sf": lambda: b.run("info", root="R", sf=["R/a.txt"]),
         "hash": lambda: b.run("hash", file="R/a.txt", h="md5")}[cmd]()
    tag = "%s on an unsealed root: exit %s exc %s" % (cmd, r.exit, r.exc)
    b.require(r.exc is None or r.exit >= 10, "no-internal-error", tag)
    b.require(r.ops == [], "read-only-command-wrote", "%s: %s" % (tag, r.ops[:4]))
    same_tree(b, before, b.snapshot(""), tag)


def _harnesses(tier):
    return [Harness("c14-unsealed", unsealed, frontier=3, budget_s=600,
                    what="10 read-only command forms on a tree whose root has no ascmhl folder (optionally with a sealed sub-folder)",
                    bounds={"tree": "R/{a.txt,d/{b.txt},z/}"}, outside=[]),
            Harness("c14-side-effects", scenario(tier), frontier=6, budget_s=2400,
                    what="flat / nested histories in 5 pre-states (unchanged, altered, deleted, added, tampered manifest) x 19 command forms: "
                         "operation log and before/after snapshot (type, content id, size, mtime) of the whole tree",
                    bounds={"layouts": "flat | child at A/AA | children at A and B", "commands": READONLY + ["flatten", "create", "create -n", "create -sf", "create -dr", "create on a new root", "create -i <folder containing a nested history>"]},
                    outside=["mtime of directories that receive new entries (updated by the kernel; excluded from real snapshots)",
                             "behaviour when the process is killed (C15)"])]


def harnesses(tier):
    from . import tour
    return list(_harnesses(tier)) + tour.harnesses(tier, "C14")
