"""C04 - Digests are always judged against the first recorded value."""
from ..runner import Harness
from ..pse import truth

ALL = ["md5", "xxh64", "c4", "sha1"]


def scenario(G, K, mode):
    fmts = ALL[:K]

    def fn(b, sym):
        if mode == "nested":
            hist, frel = "R/A", "R/A/f.txt"
            b.mkfile("R/top.txt", 900)
        elif mode == "deep":
            hist, frel = "R/A/B/C", "R/A/B/C/f.txt"
            b.mkfile("R/top.txt", 900)
            b.mkfile("R/A/a.txt", 901)
            b.mkfile("R/A/B/b.txt", 902)
            # R/A/B and R/A are histories of their own before C and its file exist: with the run from R four histories are stacked
            for hr in ("R/A/B", "R/A"):
                r0 = b.run("create", root=hr, h=["md5"], n=True)
                b.require(r0.exit == 0, "setup-create", "%s: %s" % (hr, r0))
        elif mode == "parent-of-nested":
            hist, frel = "R", "R/f.txt"
            b.mkfile("R/A/a.txt", 900)
        else:
            hist, frel = "R", "R/f.txt"
        v = [sym.int("v%d" % i, 1, 3) for i in range(G)]
        b.mkfile(frel, v[0])
        if mode == "nested":
            # give A its own history first (one generation with the formats of generation 0 is created below)
            pass
        first = {}  # fmt -> (digest, generation)
        all_same = True
        for g in range(G):
            if g == 1 and mode == "parent-of-nested" and sym.flag("same_relpath_appears_in_child"):
                b.mkfile("R/A/f.txt", 901)  # a new, unrecorded file at the same history-relative path in the nested history
            if g > 0:
                b.alter(frel, v[g])
                if not truth(v[g] == v[0]):
                    all_same = False
            req = [f for f in fmts if sym.flag("g%d_%s" % (g, f))]
            if not req:
                sym.assume(False)
            b.note("gen%d: -h %s" % (g, ",".join(req)))
            if mode == "sf":
                # from the second generation on the file may be named the way a shell user names it from inside the folder
                spell = "plain" if g == 0 else sym.choose("sf_spelling_g%d" % g, ["plain", "./f.txt", "sub/../f.txt"])
                if spell == "plain":
                    r = b.run("create", root="R", h=req, sf=[frel])
                else:
                    if not b.exists("R/sub"):
                        b.mkdir("R/sub")
                    r = b.run("create", root=b.p("R"), cwd="R", h=req, sf=[spell])
            elif mode == "parent-of-nested" and g == 0:
                r = b.run("create", root="R/A", h=req, n=True)
                b.require(r.exit == 0, "setup-create", str(r))
                r = b.run("create", root="R", h=req, n=True)
            elif mode == "parent-of-nested":
                r = b.run("create", root="R", h=req, n=True)
            elif mode == "deep" and g == 0:
                r = b.run("create", root="R/A/B/C", h=req, n=True)
            elif mode == "deep":
                r = b.run("create", root="R", h=req, n=True)
            elif mode == "nested" and g == 0:
                r = b.run("create", root="R/A", h=req, n=True)
            elif mode == "nested":
                # -n: directory hashes are irrelevant here and would make every ancestor hash (and its sort position) symbolic
                r = b.run("create", root="R", h=req, n=True)
            else:
                r = b.run("create", root="R", h=req)
            ms = b.manifests(hist)
            b.require(len(ms) == g + 1, "one-generation-per-run", "gen %d: %d manifests, exit %s exc %s" % (g, len(ms), r.exit, r.exc))
            rec = [x for x in ms[-1].files() if x.path == "f.txt"]
            b.require(len(rec) == 1, "file-recorded-once", "gen %d: %d records" % (g, len(rec)))
            rec = rec[0]
            cur = {f: b.H(f, frel) for f in fmts}
            any_failed = False
            old_verified = False
            seen = set()
            for e in rec.entries:
                b.require(e.fmt not in seen, "duplicate-format-entry", "gen %d fmt %s" % (g, e.fmt))
                seen.add(e.fmt)
                b.require(e.fmt in cur and truth(e.digest == cur[e.fmt]), "recorded-digest-is-current", "gen %d fmt %s" % (g, e.fmt))
                if g == 0:
                    b.require(e.action == "original", "first-generation-original", "gen0 %s action %s" % (e.fmt, e.action))
                    continue
                b.require(e.action != "original", "original-only-first", "gen %d %s marked original" % (g, e.fmt))
                if e.fmt in first:
                    same = truth(cur[e.fmt] == first[e.fmt][0])
                    exp = "verified" if same else "failed"
                    b.require(e.action == exp, "action-vs-first-recorded",
                              "gen %d %s: action %s, expected %s (reference = generation %d)" % (g, e.fmt, e.action, exp, first[e.fmt][1]))
                    if same:
                        old_verified = True
                    else:
                        any_failed = True
            for e in rec.entries:
                if g > 0 and e.fmt not in first:
                    b.require(e.action == "verified", "new-format-verified", "gen %d %s action %s" % (g, e.fmt, e.action))
                    b.require(old_verified and not any_failed, "new-format-needs-verified-old",
                              "gen %d new format %s recorded although old formats verified=%s failed=%s" % (g, e.fmt, old_verified, any_failed))
            if g == 0:
                b.require(seen == set(req), "first-generation-formats", "gen0 recorded %s requested %s" % (sorted(seen), req))
            else:
                b.require(any(f in first for f in seen), "history-consulted", "gen %d: no already recorded format was checked" % g)
                for f in req:
                    if f in first:
                        b.require(f in seen, "requested-format-recorded", "gen %d %s" % (g, f))
                    else:
                        b.require((f in seen) == (not any_failed), "new-format-iff-verified",
                                  "gen %d new %s recorded=%s any_failed=%s" % (g, f, f in seen, any_failed))
            exp_exit = 11 if any_failed else 0
            b.require(r.exit == exp_exit and (r.exc is None or any_failed), "exit-code",
                      "gen %d: exit %s exc %s expected %s | %s" % (g, r.exit, r.exc, exp_exit, b_notes(b)))
            if all_same:
                b.require(r.exit == 0, "unaltered-exit-0", "gen %d: exit %s exc %s | %s" % (g, r.exit, r.exc, b_notes(b)))
            for e in rec.entries:
                if e.fmt not in first:
                    first[e.fmt] = (cur[e.fmt], g)
    return fn


def b_notes(b):
    return "; ".join(getattr(b, "notes", []))


def long_history(b, sym):
    """12 generations; a second format is first recorded in generation 2-9; the content changes at generation 10 or later:
    the reference stays the first recorded digest of each format (generation order is numeric, not textual)"""
    b.mkfile("R/f.txt", 1)
    added_at = sym.choose("second_format_first_recorded_in_generation", [2, 5, 9])
    altered_at = sym.choose("content_altered_from_generation", [10, 11])
    restored_at = sym.choose("content_restored_in_generation", [0, 12])
    first = {}
    for g in range(1, 13):
        if g == altered_at:
            b.alter("R/f.txt", 2)
        if g == restored_at:
            b.alter("R/f.txt", 1)
        req = ["md5"] if g < added_at else (["xxh64"] if g % 2 else ["md5", "xxh64"])
        r = b.run("create", root="R", h=req, n=True)
        rec = b.manifests("R")[-1].record("f.txt")
        b.require(rec is not None, "file-recorded-once", "gen %d" % g)
        cur = {f: b.H(f, "R/f.txt") for f in ("md5", "xxh64")}
        failed = False
        for e in rec.entries:
            if e.fmt in first:
                same = truth(cur[e.fmt] == first[e.fmt])
                exp = "verified" if same else "failed"
                failed = failed or not same
                b.require(e.action == exp, "action-vs-first-recorded", "gen %d %s: action %s, expected %s" % (g, e.fmt, e.action, exp))
            else:
                b.require(e.action == ("original" if g == 1 else "verified"), "new-format-verified", "gen %d %s action %s" % (g, e.fmt, e.action))
        b.require(r.exit == (11 if failed else 0), "exit-code", "gen %d: exit %s exc %s" % (g, r.exit, r.exc))
        for e in rec.entries:
            first.setdefault(e.fmt, cur[e.fmt])


def after_rename(b, sym):
    """record, rename, create -dr, then alter / keep / restore: the renamed file is still judged against its first recorded digest"""
    b.mkfile("R/f.txt", 1)
    b.mkfile("R/d/other.txt", 5)
    fm = sym.choose("formats", [["md5"], ["xxh64", "c4"]])
    r = b.run("create", root="R", h=fm)
    b.require(r.exit == 0, "unaltered-exit-0", str(r))
    new = sym.choose("renamed_to", ["R/g.txt", "R/d/f moved.txt"])
    b.rename("R/f.txt", new)
    r = b.run("create", root="R", h=fm, dr=True)
    b.require(r.exit == 0 and r.exc is None, "unaltered-exit-0", "create -dr: %s" % r)
    relnew = cm_rel(new)
    for g, cid in enumerate([sym.choose("content_after_rename", [1, 2]), sym.choose("content_later", [1, 2])]):
        b.alter(new, cid)
        r = b.run("create", root="R", h=fm) if not sym.flag("sf%d" % g) else b.run("create", root="R", h=fm, sf=[new])
        rec = b.manifests("R")[-1].record(relnew)
        b.require(rec is not None, "file-recorded-once", "generation %d after the rename" % (g + 1))
        exp = "verified" if cid == 1 else "failed"
        for e in rec.entries:
            b.require(e.action != "original", "original-only-first", "generation %d after the rename: %s marked original again" % (g + 1, e.fmt))
            b.require(e.action == exp, "action-vs-first-recorded", "generation %d after the rename, content %s: %s is %s, expected %s"
                      % (g + 1, "unchanged" if cid == 1 else "altered", e.fmt, e.action, exp))
        b.require(r.exit == (0 if cid == 1 else 11), "exit-code", "generation %d after the rename: exit %s" % (g + 1, r.exit))


def cm_rel(p):
    import posixpath
    return posixpath.relpath(p, "R")


def _harnesses(tier):
    hs = [Harness("c04-after-rename", after_rename, frontier=4, budget_s=600,
                  what="record, rename, create -dr, then two more generations with the content kept / altered / restored (folder or -sf mode)",
                  bounds={"generations": 4}, outside=[]),
          Harness("c04-long", long_history, frontier=3, budget_s=900,
                  what="12 generations: a second format first recorded in generation 2/5/9, content altered from generation 10/11, optionally restored in 12",
                  bounds={"generations": 12, "formats": ["md5", "xxh64"]}, outside=[])]
    if tier == "quick":
        cfg = [(3, 3, "folder"), (4, 2, "folder"), (2, 3, "sf"), (2, 2, "nested"), (2, 2, "parent-of-nested"), (2, 2, "deep")]
    else:
        cfg = [(4, 3, "folder"), (3, 4, "folder"), (5, 2, "folder"), (4, 3, "sf"), (4, 3, "nested"), (3, 3, "parent-of-nested"), (3, 2, "deep")]
    for G, K, mode in cfg:
        hs.append(Harness("c04-%s-G%d-K%d" % (mode, G, K), scenario(G, K, mode), frontier=5, budget_s=1500,
                          what="%d create runs over one file, each with any non-empty subset of %s, content kept/altered/"
                               "restored symbolically, %s mode" % (G, ALL[:K], mode),
                          bounds={"generations": G, "formats": ALL[:K], "content_versions": 3, "mode": mode, "file_size": 5},
                          outside=["more than %d generations" % G, "formats outside the listed ones", "several files"]))
    return hs


def harnesses(tier):
    from . import tour
    return list(_harnesses(tier)) + tour.harnesses(tier, "C04")
