"""C10 - Manifests and chain files read back exactly what was written."""
import posixpath
from ..runner import Harness
from ..pse import truth
from . import common as cm

PATHS = ["Cafe\u0301 (NFD)/a b.txt", "dü/x&y <z>.mov", "q'uo\"te.txt", "plain.bin"]
DIRS = ["clips", "dü/sub dir&"]
TEXTS = ["Ünïcode & <tags> \"quoted\" 'single'", "plain", "a  b   c", "日本語テキスト"]
ACTIONS = ["original", "verified", "failed"]


def mkdate(b, t, micro):
    if b.real:
        import datetime
        return datetime.datetime.fromtimestamp(t).replace(microsecond=micro)
    from ..clock import FakeDatetime
    return FakeDatetime(b.world, t, micro, None)


def instant(b, d):
    """(epoch seconds, microsecond) of a date object of either world"""
    if b.real:
        return (int(d.replace(microsecond=0).timestamp()), d.microsecond)
    return (d.t, d.micro)


def manifest_roundtrip(tier, focus):
    """focus: which dimension is symbolic ('records' | 'creator' | 'process'); the others take one fixed representative value"""
    def fn(b, sym):
        import ascmhl.hashlist as HL
        import ascmhl.hashlist_xml_parser as XP
        from ascmhl.ignore import MHLIgnoreSpec

        def pick(name, options, dim):
            return sym.choose(name, options) if focus == dim else options[-1]

        b.mkdir("R/ascmhl")
        if focus == "records":
            # dates are written with the local UTC offset: positive, negative, whole-hour and half-hour zones
            b.use_fixed_offset(60 * sym.choose("zone_offset_minutes", [0, 330, -150, -480]))
        hl = HL.MHLHashList()
        ci = HL.MHLCreatorInfo()
        ci.tool = HL.MHLTool("ascmhl", "1.2")
        ci.creation_date = "2020-01-15T13:00:00+00:00"
        ci.host_name = pick("hostname", ["host.local", TEXTS[0]], "creator")
        ci.location = pick("location", [None] + TEXTS[:2], "creator")
        ci.comment = pick("comment", [None, TEXTS[3], TEXTS[2]], "creator")
        for i in range(pick("n_authors", [0, 2, 1], "creator")):
            if i == 0:
                ci.authors.append(HL.MHLAuthor(TEXTS[i], pick("email", [None, "a@b.org"], "creator"), pick("phone", [None, "+49 89 1"], "creator"),
                                               pick("role", [None, "DIT & more"], "creator")))
            else:
                ci.authors.append(HL.MHLAuthor(TEXTS[i], None, "123", None))
        hl.creator_info = ci
        pi = hl.process_info
        pi.process = HL.MHLProcess(pick("process", ["flatten", "in-place"], "process"))
        pats = pick("ignore", [[], ["*.tmp"], [".DS_Store", "ascmhl", "ascmhl/", "a b/**/c&d"]], "process")
        pi.ignore_spec = MHLIgnoreSpec(pats) if pick("ignore_via_spec", [False, True], "process") else MHLIgnoreSpec(pats or None)
        exp_pats = pi.ignore_spec.get_pattern_list()
        fmts_all = ["md5", "c4", "xxh64"]
        # root hash
        nroot = pick("n_root_entries", [0, 2, 1], "process")
        written_root = []
        if nroot or pick("root_object_without_entries", [True, False], "process"):
            rh = HL.MHLMediaHash()
            rh.path = "."
            rh.is_directory = True
            for i in range(nroot):
                e = HL.MHLHashEntry(fmts_all[i], b.Hcid(fmts_all[i], 100 + i, 5))
                e.structure_hash_string = b.Hcid(fmts_all[i], 200 + i, 5)
                rh.append_hash_entry(e)
                written_root.append((fmts_all[i], e.hash_string, e.structure_hash_string))
            hl.append_hash(rh)
        # media hashes
        written = []
        rec_fmts = fmts_all[:2] if tier == "quick" else fmts_all
        n = pick("n_records", [2, 1], "records")
        for i in range(n):
            mh = HL.MHLMediaHash()
            is_dir = pick("is_dir%d" % i, [True, False], "records") if i == 0 else (sym.flag("is_dir%d" % i) if focus == "records" else True)
            mh.is_directory = is_dir
            mh.path = (DIRS if is_dir else PATHS)[i % (2 if is_dir else 4)]
            if not is_dir:
                mh.file_size = sym.int("size%d" % i, 0, 10 ** 15)
            ren = pick("renamed%d" % i, [False, True, "to-the-path-of-the-next-record"] if i == 0 else [False, True], "records")
            if ren == "to-the-path-of-the-next-record":
                # (a file moved away and another one moved into its place: the former path of record 0 is the path of record 1)
                mh.previous_path = (DIRS if is_dir else PATHS)[1 % (2 if is_dir else 4)]
            elif ren:
                mh.previous_path = "old name %d &.dat" % i
            subsets = [[f] for f in rec_fmts] + [rec_fmts] + ([[]] if is_dir else [])
            subset = pick("formats%d" % i, subsets[::-1] if is_dir else subsets, "records")
            if is_dir and not subset and focus != "records":
                subset = rec_fmts
            action = None if is_dir else pick("action%d" % i, ACTIONS, "records")
            micro = pick("micro%d" % i, [0, 123456], "records")
            ents = []
            if not is_dir and focus == "records" and i == 0 and len(subset) == 1 and sym.flag("same_format_twice"):
                subset = subset * 2
            for k, f in enumerate(subset):
                date = mkdate(b, 1577836800 + 1000 * i + k, micro)
                e = HL.MHLHashEntry(f, b.Hcid(f, 10 * i + k + 1, 5), action, date)
                if is_dir:
                    e.structure_hash_string = b.Hcid(f, 10 * i + k + 50, 5)
                mh.append_hash_entry(e)
                ents.append((f, e.hash_string, action, instant(b, date), e.structure_hash_string))
            hl.append_hash(mh)
            written.append((mh.path, mh.file_size, is_dir, mh.previous_path, ents))
        # references
        refs = []
        for i in range(pick("n_references", [0, 2, 1], "process")):
            child = "R/child%d &/ascmhl/0001_child%d_2020-01-15_130000Z.mhl" % (i, i)
            b.mkfile(child, 700 + i)
            ref = HL.MHLHashList()
            ref.file_path = b.p(child)
            hl.referenced_hash_lists.append(ref)
            refs.append((posixpath.relpath(child, "R"), b.H("c4", child)))
        target = "R/ascmhl/0001_R_2020-01-15_130000Z.mhl"
        XP.write_hash_list(hl, b.p(target))
        back = XP.parse(b.p(target))
        # ---- the tool's own reader
        bi = back.creator_info
        b.require(bi is not None and bi.creation_date == ci.creation_date, "creationdate", "")
        b.require(bi.host_name == ci.host_name and bi.location == ci.location and bi.comment == ci.comment, "creatorinfo-texts",
                  "%r %r %r" % (bi.host_name, bi.location, bi.comment))
        b.require(bi.tool is not None and bi.tool.name == "ascmhl" and bi.tool.version == "1.2", "tool", "")
        b.require([(a.name, a.email, a.phone, a.role) for a in bi.authors] == [(a.name, a.email, a.phone, a.role) for a in ci.authors],
                  "authors", "%r" % [(a.name, a.email, a.phone, a.role) for a in bi.authors])
        bp = back.process_info
        b.require((bp.process.process_type if hasattr(bp.process, "process_type") else bp.process) == pi.process.process_type, "process-type", repr(bp.process))
        b.require(bp.ignore_spec.get_pattern_list() == (exp_pats if exp_pats else cm.DEFAULT_IGNORES) or bp.ignore_spec.get_pattern_list() == exp_pats,
                  "ignore-patterns", "%r vs %r" % (bp.ignore_spec.get_pattern_list(), exp_pats))
        if written_root:
            rb = bp.root_media_hash
            b.require(rb is not None and len(rb.hash_entries) == len(written_root), "roothash-entries", "")
            for (f, c, s), e in zip(written_root, rb.hash_entries):
                b.require(e.hash_format == f and truth(e.hash_string == c) and truth(e.structure_hash_string == s), "roothash-values", f)
        else:
            b.require(bp.root_media_hash is None or len(bp.root_media_hash.hash_entries) == 0, "roothash-absent", "")
        b.require(len(back.media_hashes) == len(written), "record-count", "%d vs %d" % (len(back.media_hashes), len(written)))
        for (path, size, is_dir, prev, ents), mh in zip(written, back.media_hashes):
            b.require(mh.path == path, "record-path", "%r vs %r" % (mh.path, path))
            b.require(mh.is_directory == is_dir, "record-kind", path)
            b.require(mh.previous_path == prev, "previous-path", "%r vs %r" % (mh.previous_path, prev))
            if not is_dir:
                b.require(mh.file_size is not None and truth(mh.file_size == size), "record-size", path)
            # entries are written sorted by format for files, in given order for directories
            got = {e.hash_format: e for e in mh.hash_entries}
            b.require(len(mh.hash_entries) == len(ents) and sorted(e.hash_format for e in mh.hash_entries) == sorted(f for f, *_ in ents), "entry-formats",
                      "%s: %s vs %s" % (path, [e.hash_format for e in mh.hash_entries], [f for f, *_ in ents]))
            dup = len(set(f for f, *_ in ents)) != len(ents)
            for k, (f, dig, action, inst, struct) in enumerate(ents):
                e = got[f] if not dup else mh.hash_entries[k]
                b.require(truth(e.hash_string == dig), "entry-digest", "%s %s" % (path, f))
                b.require(e.action == action, "entry-action", "%s %s: %r vs %r" % (path, f, e.action, action))
                gi = instant(b, e.hash_date)
                b.require(truth(gi[0] == inst[0]) and truth(gi[1] == inst[1]), "entry-hashdate", "%s %s" % (path, f))
                if is_dir:
                    b.require(truth(e.structure_hash_string == struct), "entry-structure-hash", "%s %s" % (path, f))
            b.require(back.find_media_hash_for_path(path) is mh, "lookup-by-path", path)
            if prev and prev not in [w[0] for w in written]:  # (a former path that is another record's path finds that record)
                b.require(back.find_media_hash_for_path(prev) is mh, "lookup-by-previous-path", prev)
        got_refs = [(r.path, r.reference_hash) for r in back.hash_list_references]
        b.require(len(got_refs) == len(refs) and all(g[0] == w[0] and truth(g[1] == w[1]) for g, w in zip(got_refs, refs)), "references",
                  "%r" % [g[0] for g in got_refs])
        # ---- an independent reader sees the same values in the same file
        m = b.read_manifest_at(target)
        b.require(m.creator.get("hostname") == ci.host_name and m.creator.get("location") == ci.location and m.creator.get("comment") == ci.comment,
                  "independent-creatorinfo", "%r" % m.creator)
        b.require([(a["name"], a["email"], a["phone"], a["role"]) for a in m.authors] == [(a.name, a.email, a.phone, a.role) for a in ci.authors],
                  "independent-authors", "")
        b.require(m.process == pi.process.process_type and (m.ignore or []) == exp_pats, "independent-processinfo", "%r %r" % (m.process, m.ignore))
        b.require(len(m.records) == len(written), "independent-record-count", "")
        for (path, size, is_dir, prev, ents), rec in zip(written, m.records):
            b.require(rec.path == path and rec.kind == ("dir" if is_dir else "file") and rec.previous_path == prev, "independent-record", path)
            if not is_dir:
                sz = b.int_attr(rec.size)
                b.require(sz is not None and truth(sz == size), "independent-size", path)
            dup = len(set(f for f, *_ in ents)) != len(ents)
            for k, (f, dig, action, inst, struct) in enumerate(ents):
                e = rec.entry(f) if not dup else rec.entries[k]
                b.require(e is not None and truth(e.digest == dig) and e.action == action, "independent-entry", "%s %s" % (path, f))
                di = b.date_attr(e.hashdate)
                b.require(di is not None and truth(di[0] == inst[0]) and truth(di[1] == inst[1]), "independent-hashdate", "%s %s" % (path, f))
                if is_dir:
                    b.require(truth(e.structure == struct), "independent-structure", path)
        b.require([(p, True) for p, _ in (m.references or [])] == [(p, True) for p, _ in refs] and
                  all(truth(g[1] == w[1]) for g, w in zip(m.references or [], refs)), "independent-references", "")
    return fn


def large_manifest(b, sym):
    """a manifest well beyond 32 KiB (the block size lxml feeds its parser with): every record reads back"""
    import ascmhl.hashlist as HL
    import ascmhl.hashlist_xml_parser as XP
    b.mkdir("R/ascmhl")
    hl = HL.MHLHashList()
    ci = HL.MHLCreatorInfo()
    ci.tool = HL.MHLTool("ascmhl", "1.2")
    ci.creation_date = "2020-01-15T13:00:00+00:00"
    ci.host_name = "host.local"
    ci.comment = "x" * sym.choose("comment_length", [0, 30, 60, 90, 120, 150, 180, 210, 240, 270, 300, 330])  # sweeps one record period
    hl.creator_info = ci
    hl.process_info.process = HL.MHLProcess("in-place")
    n = 420
    paths = []
    for i in range(n):
        mh = HL.MHLMediaHash()
        mh.path = "Clips/Reel_%03d/A%03dC%03d_200115_R%s.mov" % (i // 20, i // 20, i, "Z" * (i % 11))
        mh.file_size = 1000 + i
        mh.append_hash_entry(HL.MHLHashEntry("md5", b.Hcid("md5", i + 1, 5), "original", mkdate(b, 1577836800 + i, 0)))
        hl.append_hash(mh)
        paths.append(mh.path)
    target = "R/ascmhl/0001_R_2020-01-15_130000Z.mhl"
    XP.write_hash_list(hl, b.p(target))
    back = XP.parse(b.p(target))
    b.require(len(back.media_hashes) == n, "record-count", "%d vs %d" % (len(back.media_hashes), n))
    for i, mh in enumerate(back.media_hashes):
        b.require(mh.path == paths[i], "record-path", "record %d of a %d-record manifest: %r vs %r" % (i, n, mh.path, paths[i]))
        b.require(mh.file_size is not None and truth(mh.file_size == 1000 + i), "record-size", paths[i])
        b.require(len(mh.hash_entries) == 1 and truth(mh.hash_entries[0].hash_string == b.Hcid("md5", i + 1, 5)), "entry-digest", paths[i])
    m = b.read_manifest_at(target)
    b.require([r_.path for r_ in m.records] == paths, "independent-record", "")


def chain_roundtrip(b, sym):
    import ascmhl.hashlist as HL
    import ascmhl.chain as CH
    import ascmhl.chain_xml_parser as CP
    b.mkdir("R/ascmhl")
    chain = CH.MHLChain(b.p("R/ascmhl/ascmhl_chain.xml"))
    n = sym.choose("existing_generations", [0, 1, 2, 3])
    # the chain file of a collection (flatten destination) lists every packing list with sequence number 1
    same_seq = sym.flag("collection_entries_all_numbered_1") if n >= 2 else False
    written = []
    for i in range(n):
        name = "%04d_R &_2020-01-1%d_130000Z.mhl" % (i + 1, i)
        d = b.Hcid("c4", 300 + i, 5)
        seq = 1 if same_seq else i + 1
        g = CH.MHLChainGeneration(seq, name, "c4", d)
        chain.append_generation(g)
        written.append((str(seq), name, d))
    new = "R/ascmhl/%04d_R &_2020-01-15_130000Z.mhl" % (n + 1)
    b.mkfile(new, 400)
    hl = HL.MHLHashList()
    hl.file_path = b.p(new)
    hl.generation_number = n + 1
    written.append((str(n + 1), posixpath.basename(new), b.H("c4", new)))
    CP.write_chain(chain, hl)
    back = CP.parse(b.p("R/ascmhl/ascmhl_chain.xml"))
    b.require(len(back.generations) == len(written), "chain-length", "%d vs %d" % (len(back.generations), len(written)))
    for (seq, name, d), g in zip(written, back.generations):
        b.require(str(g.generation_number) == seq and g.ascmhl_filename == name and g.hash_format == "c4" and truth(g.hash_string == d),
                  "chain-entry", "%s %s" % (seq, name))
    ind = b.chain("R")
    b.require(len(ind) == len(written) and all(e.seq == w[0] and e.path == w[1] and truth(e.c4 == w[2]) for e, w in zip(ind, written)),
              "independent-chain", "")


LEVEL_NOTE = ("Symbolic: sizes, digests, per-entry actions/dates/format subsets, counts of records/authors/patterns/references. Texts and paths "
              "are concrete strings with spaces, non-ASCII and XML-special characters: the model treats them as opaque (lxml does the escaping), "
              "so their round-trip through real escaping is exercised only in the real replays of sampled paths.")


def harnesses(tier):
    out = ["escaping / encodings of arbitrary Unicode (lxml; only the listed sample strings go through the real serialiser in conformance replays)",
           "empty-string texts, an author literally named '-' (reader sentinel)", "last-modification date (not parsed by the tool's reader)"]
    desc = {"records": "1-2 records: file or directory, symbolic size 0..10^15, every non-empty format subset (directories also none), action, hash date "
                       "with/without microseconds, previous path",
            "creator": "host name, location, comment absent/present with special characters, 0-2 authors with every subset of e-mail/phone/role",
            "process": "process type, ignore lists (none / 1 / 4 patterns, given as spec or list), root hash with 0-2 entries or absent, 0-2 references"}
    hs = [Harness("c10-%s" % k, manifest_roundtrip(tier, k), frontier=6, budget_s=2400, conformance=6,
                  what="MHLHashList objects built directly, symbolic dimension = %s -> write_hash_list -> parse -> field-by-field equality of the "
                       "object graph; an independent reader extracts the same values" % d,
                  bounds={"symbolic dimension": d, "other dimensions": "one fixed representative value", "formats": "md5,c4 (quick) + xxh64 (thorough)"},
                  outside=out) for k, d in desc.items()]
    hs.append(Harness("c10-large", large_manifest, frontier=4, budget_s=900, conformance=12,
                      what="a 420-record manifest (about 100 KiB, several parser read blocks) with 12 header lengths shifting the block borders: every "
                           "record reads back (all 12 are replayed through the real lxml)",
                      bounds={"records": 420, "header lengths": 12}, outside=out))
    hs.append(Harness("c10-chain", chain_roundtrip, frontier=3, budget_s=300,
                      what="chain of 0-3 generations + one new -> write_chain -> parse -> equality; independent reader agrees",
                      bounds={"existing generations": "0-3"}, outside=out))
    return hs
