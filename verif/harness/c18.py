"""C18 - A flattened manifest faithfully summarises the history."""
import posixpath
from ..runner import Harness
from ..pse import truth
from . import common as cm

FM = ["md5", "xxh64", "sha1"]


def scenario(tier, G=2, lean=False):

    def fn(b, sym):
        files = {"R/a.txt": 1, "R/d/b.txt": 2, "R/d/e/c.txt": 3}
        for f, c in files.items():
            b.mkfile(f, c)
        b.mkdir("R/z")
        rel = lambda p: posixpath.relpath(p, "R")
        # expected summary: path -> fmt -> earliest non-failed digest
        summary = {}
        orig = dict(files)
        cur = dict(files)
        ever = set()
        gens = sym.choose("generations", list(range(1, G + 1)))
        for g in range(gens):
            if lean:
                fmts = sym.choose("formats%d" % g, [["md5"], ["md5", "sha1"]] if g == 0 else [["md5"], ["xxh64"]])
            else:
                fmts = [f for f in FM if sym.flag("g%d_%s" % (g, f))]
                if not fmts:
                    sym.assume(False)
            mode = "folder" if g == 0 else sym.choose("mode%d" % g, ["folder", "sf-file", "sf-folder", "sf-folder-and-file-in-it"])
            if g == 1 and sym.flag("file_added_before_gen1"):
                b.mkfile("R/z/new report.txt", 9)
                files["R/z/new report.txt"] = orig["R/z/new report.txt"] = cur["R/z/new report.txt"] = 9
            if g > 0:
                ch = sym.choose("content%d" % g, ["keep", "alter", "restore"])
                if ch == "alter":
                    cur["R/d/b.txt"] = 20 + g
                    b.alter("R/d/b.txt", 20 + g)
                elif ch == "restore":
                    cur["R/d/b.txt"] = orig["R/d/b.txt"]
                    b.alter("R/d/b.txt", orig["R/d/b.txt"])
            # the machine's time zone may differ from generation to generation (material travels)
            if g < 2 and not lean:
                b.use_fixed_offset(3600 * sym.choose("zone_hours_gen%d" % g, [0, 2, -7] if g == 1 else [0, 2]))
            names_before = b.manifest_names("R")
            if mode == "folder":
                r = b.run("create", root="R", h=fmts)
            elif mode == "sf-file":
                r = b.run("create", root="R", h=fmts, sf=["R/d/b.txt"])
            elif mode == "sf-folder-and-file-in-it":
                r = b.run("create", root="R", h=fmts, sf=["R/d", "R/d/b.txt"])  # overlapping arguments: b.txt is named twice
            else:
                r = b.run("create", root="R", h=fmts, sf=["R/d/e"])
            b.require(r.exit in (0, 11) and (r.exc is None or r.exit == 11), "setup-create", "gen %d: %s" % (g, r))
            new = [m for m in b.manifests("R") if m.file not in names_before]
            b.require(len(new) == 1, "setup-create", "gen %d wrote %d manifests" % (g, len(new)))
            for rec in new[0].files():
                ever.add(rec.path)
                for e in rec.entries:
                    if e.action != "failed":
                        summary.setdefault(rec.path, {}).setdefault(e.fmt, e.digest)
            b.note("gen%d %s %s" % (g, mode, fmts))
        if sym.flag("other_history_flattened_to_same_destination_before"):
            b.mkfile("S/notes.txt", 30)
            b.mkfile("S/x.mov", 31)
            r = b.run("create", root="S", h=["md5"], i=["*.txt"])
            b.require(r.exit == 0, "setup-create", str(r))
            r = b.run("flatten", root="S", dest="OUT")
            b.require(r.exit == 0, "setup-flatten", str(r))
        before = b.snapshot("R")
        r = b.run("flatten", root="R", dest="OUT")
        b.require(r.exit == 0 and r.exc is None, "flatten-exit-0", str(r))
        after = b.snapshot("R")
        b.require(sorted(before) == sorted(after) and all(truth(b.same_node(before[p], after[p])) for p in before), "source-untouched", "")
        pls = [p for p in b.walk_files("OUT") if posixpath.basename(p).startswith("packinglist_R_") and p.endswith(".mhl")]
        b.require(len(pls) == 1, "one-packing-list", str(b.walk_files("OUT")))
        pl = b.read_manifest_at(pls[0])
        b.require(pl.process == "flatten", "process-flatten", repr(pl.process))
        b.require(not pl.dirs(), "no-directory-records", str(pl.dirs()))
        paths = [rec.path for rec in pl.records]
        b.require(len(paths) == len(set(paths)), "one-record-per-path", str(paths))
        b.require(set(paths) == set(summary), "records-for-every-path-ever-recorded", "%s vs %s" % (sorted(paths), sorted(summary)))
        for rec in pl.records:
            want = summary[rec.path]
            got = {}
            for e in rec.entries:
                b.require(e.fmt not in got, "one-digest-per-format", "%s %s" % (rec.path, e.fmt))
                got[e.fmt] = e
            b.require(sorted(got) == sorted(want), "formats-ever-recorded", "%s: %s vs %s" % (rec.path, sorted(got), sorted(want)))
            for f, e in got.items():
                b.require(truth(e.digest == want[f]), "earliest-non-failed-digest", "%s %s" % (rec.path, f))
                b.require(e.action != "failed", "no-failed-entry", "%s %s" % (rec.path, f))
        # verify -pl: unchanged tree (w.r.t. the summarised originals) passes, altered tree fails
        unrecorded = [f for f in cur if rel(f) not in ever]
        if unrecorded:
            r = b.run("verify", root="R", pl=pls[0])
            b.require(r.exit in (21, 11), "verify-pl-reports-unrecorded-file", "%s never recorded: %s" % (unrecorded, r))
            return
        consistent = all(cur[f] == orig[f] for f in cur)
        r = b.run("verify", root="R", pl=pls[0])
        if consistent:
            b.require(r.exit == 0 and r.exc is None, "verify-pl-unchanged-0", str(r))
            victim = sym.choose("victim", sorted(files))
            b.alter(victim, 88)
            r = b.run("verify", root="R", pl=pls[0])
            b.require(r.exit == 11, "verify-pl-altered-fails", "after altering %s: %s" % (rel(victim), r))
        else:
            b.require(r.exit == 11, "verify-pl-altered-fails", "tree still altered: %s" % r)
    return fn


def long_history(b, sym):
    """more than nine generations; a file first recorded in generation 2-9 and recorded again later: the summary still holds the
    earliest digest (with its original action), and verify -pl accepts the unchanged tree"""
    b.mkfile("R/a.txt", 1)
    b.mkfile("R/d/b.txt", 2)
    added_in = sym.choose("second_file_first_recorded_in_generation", [2, 5, 9])
    n = sym.choose("generations", [10, 11, 12])
    summary = {}
    for g in range(1, n + 1):
        if g == added_in:
            b.mkfile("R/late.txt", 3)
        fm = ["md5"] if g % 4 else ["md5", "sha1"]
        sf = (g % 5 == 3)
        names_before = b.manifest_names("R")
        r = b.run("create", root="R", h=fm, n=True, sf=["R/a.txt"] if sf else ())
        b.require(r.exit == 0 and r.exc is None, "setup-create", "generation %d: %s" % (g, r))
        new = [m for m in b.manifests("R") if m.file not in names_before]
        b.require(len(new) == 1, "setup-create", "generation %d wrote %d manifests" % (g, len(new)))
        for rec in new[0].files():
            for e in rec.entries:
                if e.action != "failed":
                    summary.setdefault(rec.path, {}).setdefault(e.fmt, (e.digest, e.action))
    r = b.run("flatten", root="R", dest="OUT")
    b.require(r.exit == 0 and r.exc is None, "flatten-exit-0", str(r))
    pls = [p for p in b.walk_files("OUT") if posixpath.basename(p).startswith("packinglist_R_") and p.endswith(".mhl")]
    b.require(len(pls) == 1, "one-packing-list", str(pls))
    pl = b.read_manifest_at(pls[0])
    b.require(sorted(rec.path for rec in pl.records) == sorted(summary), "records-for-every-path-ever-recorded", str([rec.path for rec in pl.records]))
    for rec in pl.records:
        got = {e.fmt: e for e in rec.entries}
        b.require(len(got) == len(rec.entries), "one-digest-per-format", rec.path)
        b.require(sorted(got) == sorted(summary[rec.path]), "formats-ever-recorded", "%s: %s vs %s" % (rec.path, sorted(got), sorted(summary[rec.path])))
        for f, e in got.items():
            b.require(truth(e.digest == summary[rec.path][f][0]), "earliest-non-failed-digest", "%s %s" % (rec.path, f))
    r = b.run("verify", root="R", pl=pls[0])
    b.require(r.exit == 0 and r.exc is None, "verify-pl-unchanged-0", "after %d generations: %s | %s" % (n, r, (r.out + r.err)[-3:]))
    b.alter("R/late.txt", 88)
    r = b.run("verify", root="R", pl=pls[0])
    b.require(r.exit == 11, "verify-pl-altered-fails", str(r))


def _harnesses(tier):
    out = ["histories with nested child histories or renames (excluded by the statement)", "flatten -n / ignore options"]
    hs = [Harness("c18-flatten", scenario(tier, 2), frontier=6, budget_s=2400,
                  what="flat history of 1-2 generations (first in folder mode, then folder / -sf file / -sf folder), every non-empty subset of 3 "
                       "formats per generation, one file kept / altered / restored, a file added in between, the machine's time zone changing "
                       "between generations; flatten; packing list read independently; verify -pl on unchanged and altered tree",
                  bounds={"generations": "1-2", "formats": "md5, xxh64, sha1", "tree": "R/{a.txt,d/{b.txt,e/{c.txt}},z/{new report.txt?}}",
                          "zones": "UTC / +2 h / -7 h per generation"}, outside=out)]
    hs.append(Harness("c18-long", long_history, frontier=4, budget_s=900,
                      what="10-12 generations (folder and -sf runs, md5 with sha1 added now and then), a file first recorded in generation 2 / 5 / 9: "
                           "flatten keeps the earliest entries, verify -pl accepts the unchanged tree and rejects an altered one",
                      bounds={"generations": "10-12"}, outside=out))
    if tier != "quick":
        hs.append(Harness("c18-three-generations", scenario(tier, 3, lean=True), frontier=6, budget_s=2400,
                          what="the same with 1-3 generations, restricted format sequences (md5 | md5+sha1, then md5 | xxh64), fixed zone",
                          bounds={"generations": "1-3"}, outside=out))
    return hs


def harnesses(tier):
    from . import tour
    return list(_harnesses(tier)) + tour.harnesses(tier, "C18")
