"""C17 - Renamed files keep their identity when rename detection is on."""
import posixpath
from ..runner import Harness
from ..pse import truth
from . import common as cm


def missing_lines(r):
    text = r.out + r.err
    out = []
    for i, l in enumerate(text):
        if "missing file(s)" in l:
            j = i + 1
            while j < len(text) and text[j].startswith("  "):
                out.append(text[j].strip())
                j += 1
    return out


def apply_moves(b, sym, files, step, dirs):
    """each file: stays / gets a new name in its directory / moves to another existing directory"""
    moves = {}
    for i, f in enumerate(sorted(files)):
        opt = sym.choose("move%d_%d" % (step, i), ["stay", "rename", "move"])
        if opt == "stay":
            continue
        d = posixpath.dirname(f)
        if opt == "move":
            d = [x for x in dirs if x != d][i % (len(dirs) - 1)]
        new = posixpath.join(d, "ren%d_%d %s" % (step, i, posixpath.basename(f)))
        moves[f] = new
    for old, new in moves.items():
        b.rename(old, new)
    return moves


def scenario(tier, steps, four=False, lean=False, two_files=False, mixed=False):

    def fn(b, sym):
        dirs = ["R", "R/d", "R/d/e"]
        files = {"R/a.txt": 1, "R/d/b.txt": 2, "R/d/e/c.txt": 3}
        if four:
            files["R/b2.txt"] = 4
        if two_files:
            del files["R/d/e/c.txt"]
        for f, c in files.items():
            b.mkfile(f, c)
        fmts = sym.choose("formats", [["md5"], ["xxh64", "c4"]]) if not lean else ["md5"]
        r = b.run("create", root="R", h=fmts)
        b.require(r.exit == 0, "setup-create", str(r))
        rel = lambda p: posixpath.relpath(p, "R")
        cur = dict(files)
        if mixed:
            # a history whose files were first recorded in different formats; rename detection runs with yet another one
            b.mkfile("R/d/empty.log", 7, size=0)
            cur["R/d/empty.log"] = 7
            r = b.run("create", root="R", h=["md5"], sf=["R/d/empty.log"])
            b.require(r.exit == 0, "setup-create", str(r))
            b.mkfile("R/d/late.txt", 8)
            b.mkfile("R/late2.txt", 9)
            cur["R/d/late.txt"], cur["R/late2.txt"] = 8, 9
            r = b.run("create", root="R", h=["xxh64"])
            b.require(r.exit == 0, "setup-create", str(r))
            fmts = sym.choose("dr_formats", [["sha1"], ["xxh64"], ["md5"]])
        for step in range(steps):
            moves = apply_moves(b, sym, cur, step, dirs)
            if not moves and step > 0:
                break
            extra = sym.flag("unrelated_new_file%d" % step) if not lean else False
            if extra:
                b.mkfile("R/d/brand new %d.bin" % step, 50 + step)
            b.note("step %d moves %s" % (step, {rel(k): rel(v) for k, v in moves.items()}))
            if step == 0 and moves and not lean and sym.flag("control_without_dr"):
                # without -dr the same tree is reported as missing plus new
                r = b.run("verify", root="R")
                ml = missing_lines(r)
                b.require(r.exit != 0, "without-dr-nonzero", "verify: %s" % r)
                for old, new in moves.items():
                    b.require(any(cm.names_path(l, rel(old)) for l in ml), "without-dr-missing-reported", "%s not in %s" % (rel(old), ml))
                    b.require(any("found new file" in l and cm.names_path(l, rel(new)) for l in r.out + r.err), "without-dr-new-reported", rel(new))
                r = b.run("create", root="R", h=fmts)
                b.require(r.exit == 10, "without-dr-create-10", str(r))
                return
            pre = "none"
            if moves and step == 0 and lean is False and not four:
                # another command may have been run on the renamed tree before rename detection is asked for
                pre = sym.choose("command_before_dr", ["none", "plain-create", "create-sf-new-path", "verify"])
                if pre == "plain-create":
                    r0 = b.run("create", root="R", h=fmts)
                    b.require(r0.exit == 10, "without-dr-create-10", str(r0))
                elif pre == "create-sf-new-path":
                    r0 = b.run("create", root="R", h=fmts, sf=[sorted(moves.values())[0]])
                    b.require(r0.exit == 0, "setup-create", str(r0))
                elif pre == "verify":
                    b.run("verify", root="R")
            r = b.run("create", root="R", h=fmts, dr=True)
            tag = "create -dr (before it: %s) after %s: exit %s exc %s" % (pre, {rel(k): rel(v) for k, v in moves.items()}, r.exit, r.exc)
            b.require(r.exit == 0 and r.exc is None, "create-dr-exit-0", tag)
            b.require(not missing_lines(r), "renamed-reported-missing", "%s: %s" % (tag, missing_lines(r)))
            m = b.manifests("R")[-1]
            for old, new in moves.items():
                rec = m.record(rel(new))
                b.require(rec is not None and rec.kind == "file", "renamed-file-recorded", "%s: %s" % (tag, rel(new)))
                b.require(rec.previous_path == rel(old), "previous-path", "%s: %s has previousPath %r, expected %r" % (tag, rel(new), rec.previous_path, rel(old)))
            for f in cur:
                if f not in moves:
                    rec = m.record(rel(f))
                    b.require(rec is not None and rec.previous_path is None, "unmoved-file-no-previous-path", "%s: %s" % (tag, rel(f)))
            for old, new in moves.items():
                cur[new] = cur.pop(old)
            if extra:
                cur["R/d/brand new %d.bin" % step] = 50 + step
            # afterwards verify, diff and create without -dr accept the tree
            for cmd in ("verify", "diff", "create"):
                r2 = b.run(cmd, root="R") if cmd != "create" else b.run("create", root="R", h=fmts)
                b.require(r2.exit == 0 and r2.exc is None, "accepted-afterwards", "%s after step %d (%s): exit %s exc %s | %s"
                          % (cmd, step, {rel(k): rel(v) for k, v in moves.items()}, r2.exit, r2.exc, (r2.err + r2.out)[:3]))
        # verify still fails if a renamed file's content is changed as well
        renamed_now = [f for f in cur if posixpath.basename(f).startswith("ren")]
        if renamed_now and (lean or sym.flag("then_alter_renamed")):
            b.alter(sorted(renamed_now)[0], 77, size=6)  # (also for a file that was empty: other bytes, not just another content id)
            r = b.run("verify", root="R")
            b.require(r.exit == 11, "renamed-and-changed-fails", "verify after altering %s: %s" % (rel(sorted(renamed_now)[0]), r))
    return fn


def nested(b, sym):
    """a nested history: files of the parent and of the child history (same relative path inside their histories) renamed in one run;
    an unrelated new file in a new directory; rename detection run with the recorded or with another format"""
    files = {"R/clip.mov": 1, "R/A/clip.mov": 2, "R/A/x/other.txt": 3}
    for f, c in files.items():
        b.mkfile(f, c)
    r = b.run("create", root="R/A", h=["md5"])
    b.require(r.exit == 0, "setup-create", str(r))
    # how the root is spelled on the command line, the same way in every run (from inside the folder as `.`, with `./` in front)
    from .c13 import root_argument
    spelling = sym.choose("root_spelling", ["plain", "dot", "dot-slash"])
    rootarg = root_argument(spelling)
    r = b.run("create", h=["md5"], **rootarg)
    b.require(r.exit == 0, "setup-create", str(r))
    moves = {}
    for i, f in enumerate(["R/clip.mov", "R/A/clip.mov"]):
        opt = sym.choose("move_%d" % i, ["stay", "rename"])
        if opt == "rename":
            moves[f] = posixpath.join(posixpath.dirname(f), "renamed %d.mov" % i)
    if not moves:
        sym.assume(False)
    for old, new in moves.items():
        b.rename(old, new)
    if sym.flag("unrelated_new_file_in_a_new_directory"):
        b.mkfile("R/fresh/brand new.bin", 9)
    fmts = [sym.choose("dr_format", ["md5", "sha1"])]
    r = b.run("create", h=fmts, dr=True, **rootarg)
    tag = "create -dr -h %s (root spelled %s) after %s: exit %s exc %s" % (fmts[0], spelling, moves, r.exit, r.exc)
    b.require(r.exit == 0 and r.exc is None, "create-dr-exit-0", tag)
    b.require(not missing_lines(r), "renamed-reported-missing", "%s: %s" % (tag, missing_lines(r)))
    for old, new in moves.items():
        hr = "R/A" if old.startswith("R/A/") else "R"
        m = b.manifests(hr)[-1]
        rec = m.record(posixpath.relpath(new, hr))
        b.require(rec is not None and rec.kind == "file", "renamed-file-recorded", "%s: %s in history %s" % (tag, new, hr))
        b.require(rec.previous_path == posixpath.relpath(old, hr), "previous-path", "%s: %s has previousPath %r, expected %r"
                  % (tag, new, rec.previous_path, posixpath.relpath(old, hr)))
    for f in files:
        if f not in moves:
            hr = "R/A" if f.startswith("R/A/") else "R"
            rec = b.manifests(hr)[-1].record(posixpath.relpath(f, hr))
            b.require(rec is not None and rec.previous_path is None, "unmoved-file-no-previous-path", "%s: %s" % (tag, f))
    for cmd in ("verify", "create"):
        r2 = b.run(cmd, **rootarg) if cmd != "create" else b.run("create", h=fmts, **rootarg)
        b.require(r2.exit == 0 and r2.exc is None, "accepted-afterwards", "%s afterwards: exit %s exc %s | %s" % (cmd, r2.exit, r2.exc, (r2.err + r2.out)[:3]))


def _harnesses(tier):
    out = ["directory renames", "renames across history boundaries", "-n generations", "files with identical contents"]
    hs = [Harness("c17-renames", scenario(tier, 1, tier != "quick"), frontier=6, budget_s=2400,
                  what="3 (quick) / 4 (thorough) files with distinct contents in 3 directories; every combination of stay / rename in place / move to "
                       "another directory per file, optional unrelated new file; create -dr, then verify / diff / create; control without -dr; "
                       "then alter a renamed file",
                  bounds={"files": "3 / 4", "rename steps": 1, "formats": "md5 | xxh64+c4"}, outside=out),
          Harness("c17-two-steps", scenario(tier, 2, lean=(tier == "quick")), frontier=6, budget_s=2400,
                  what="the same with 3 files and a second rename step one generation later (a file renamed again keeps its identity)",
                  bounds={"files": 3, "rename steps": 2, "quick": "format md5, no unrelated files"},
                  outside=out)]
    hs.append(Harness("c17-three-steps", scenario(tier, 3, lean=True, two_files=True), frontier=6, budget_s=1200,
                      what="2 files, three consecutive rename generations (a file renamed in every generation keeps its identity)",
                      bounds={"files": 2, "rename steps": 3}, outside=out))
    hs.append(Harness("c17-mixed-formats", scenario(tier, 1, lean=True, mixed=True), frontier=6, budget_s=1200,
                      what="files first recorded in different formats (md5 generation, xxh64 generation), several renamed in one step, "
                           "create -dr run with a third / second / first format",
                      bounds={"files": 5, "formats": "md5 then xxh64; -dr with sha1 | xxh64 | md5"}, outside=out))
    hs.append(Harness("c17-nested", nested, frontier=5, budget_s=1200,
                      what="parent and nested history each holding a file with the same history-relative path, one or both renamed in place in one run; "
                           "optional unrelated new file in a new directory; create -dr with the recorded or another format; then verify / create",
                      bounds={"histories": 2, "files": 3, "formats": "md5 recorded; -dr with md5 | sha1"}, outside=out))
    return hs


def harnesses(tier):
    from . import tour
    return list(_harnesses(tier)) + tour.harnesses(tier, "C17")
