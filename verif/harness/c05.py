"""C05 - Any change to a chained manifest is detected before anything else happens."""
import posixpath
from ..runner import Harness
from ..pse import truth
from . import common as cm

LAYOUTS = [[], ["R/A/AA"], ["R/A/AA", "R/AB"], ["R/A/AA/AAA", "R/A/AA"], ["R/.backup/H", "R/A/AA"], ["R/A", "R/A/AA", "R/A/AA/AAA"]]
EDITS = {1: "newline appended", 2: "bit flipped", 3: "CR inserted before a LF", 4: "last byte truncated", 5: "converted to CRLF",
         6: "blank inserted", 7: "comment appended"}
COMMANDS = ["create", "create-sf", "verify", "verify-sf", "verify-dh", "diff", "info", "info-sf", "flatten"]


def build(b, sym, tier):
    files = {"R/s.txt": 1, "R/A/a1.txt": 2, "R/A/AA/aa1.txt": 3, "R/A/AA/AAA/aaa1.txt": 4, "R/AB/ab1.txt": 5, "R/.backup/H/h.txt": 6}
    for f, c in files.items():
        b.mkfile(f, c)
    layout = sym.choose("layout", LAYOUTS if tier != "quick" else LAYOUTS[:5])
    for c in layout:
        r = b.run("create", root=c, h=["md5"])
        b.require(r.exit == 0, "setup-create", "%s %s" % (c, r))
    # 0: the folder the command is started on has no history of its own yet, only the nested ones
    gens = sym.choose("root_generations", [1, 2, 0] if tier == "quick" else [1, 2, 3, 0])
    if gens == 0 and not layout:
        sym.assume(False)
    for g in range(gens):
        r = b.run("create", root="R", h=[["xxh64"], ["md5", "c4"], ["sha1"]][g])
        b.require(r.exit == 0 and r.exc is None, "setup-create", "root gen %d %s" % (g, r))
    return files, sorted(set(layout + (["R"] if gens else [])))


def scenario(tier):
    def fn(b, sym):
        files, roots = build(b, sym, tier)
        hist = sym.choose("tampered_history", roots)
        kind = sym.choose("kind", ["modify", "remove-manifest", "remove-chain"])
        folder = posixpath.join(hist, "ascmhl")
        if kind == "remove-chain":
            b.delete(posixpath.join(folder, "ascmhl_chain.xml"))
            exp, exc = 32, "NoMHLChainException"
            what = "chain of %s removed" % hist
        else:
            names = b.manifest_names(hist)
            name = sym.choose("generation", names)
            target = posixpath.join(folder, name)
            if kind == "modify":
                # kind of byte edit (the model only sees "content differs"; the real replay performs exactly this edit):
                # append newline | flip a bit | insert CR before a LF | truncate | CRLF conversion | insert a blank | append a comment
                ek = sym.choose("edit_kind", [1, 2, 3, 4, 5, 6, 7])
                b.alter(target, ek)
                exp, exc = 31, "ModifiedMHLManifestFileException"
                what = "manifest %s of %s modified (%s)" % (name[:4], hist, EDITS[ek])
            else:
                b.delete(target)
                exp, exc = 33, "MissingMHLManifestException"
                what = "manifest %s of %s removed" % (name[:4], hist)
        b.note(what)
        cmd = sym.choose("command", COMMANDS)
        if "R" not in roots and cmd != "create":
            sym.assume(False)  # (the other commands need a history at the folder they are started on)
        before = b.snapshot("")
        if cmd == "create":
            r = b.run("create", root="R", h=["md5"])
        elif cmd == "create-sf":
            r = b.run("create", root="R", h=["md5"], sf=["R/s.txt"])
        elif cmd == "verify":
            r = b.run("verify", root="R")
        elif cmd == "verify-sf":
            r = b.run("verify", root="R", sf="R/s.txt")
        elif cmd == "verify-dh":
            r = b.run("verify", root="R", dh=True)
        elif cmd == "diff":
            r = b.run("diff", root="R")
        elif cmd == "info":
            r = b.run("info", root="R")
        elif cmd == "info-sf":
            r = b.run("info", root="R", sf=["R/s.txt"])
        else:
            r = b.run("flatten", root="R", dest="OUT")
        ctx = "%s; %s -> exit %s exc %s" % (what, cmd, r.exit, r.exc)
        aid = "refused-with-dedicated-code" if kind != "modify" else "modified-manifest-refused/" + EDITS[ek].replace(" ", "-")
        b.require(r.exit == exp and r.exc == exc, aid, "expected %d: %s" % (exp, ctx))
        if r.ops is not None:
            b.require(r.ops == [], "nothing-written", "%s ops %s" % (ctx, r.ops[:4]))
        after = b.snapshot("")
        b.require(sorted(before) == sorted(after), "tree-unchanged", "%s: entries %s" % (ctx, sorted(set(before) ^ set(after))[:4]))
        for p in before:
            b.require(truth(b.same_node(before[p], after[p])), "tree-unchanged", "%s: %s changed" % (ctx, p))
    return fn


def long_chain(b, sym):
    """a history with 10-11 generations: a damaged manifest of ANY generation (also the two-digit ones) is refused"""
    R = sym.choose("root_folder_name", ["R", "Reel [A001]"])
    b.mkfile(R + "/a.txt", 1)
    b.mkfile(R + "/d/b.txt", 2)
    nested = sym.flag("nested")
    hist = R + "/d" if nested else R
    if nested:
        r = b.run("create", root=R + "/d", h=["md5"])
    n = sym.choose("generations", [10, 11] if R == "R" else [2])
    for g in range(n):
        r = b.run("create", root=R, h=["md5"]) if g % 2 == 0 else b.run("create", root=R, h=["md5"], sf=[R + "/d/b.txt"])
        b.require(r.exit == 0, "setup-create", str(r))
    names = b.manifest_names(hist)
    name = sym.choose("generation", [names[0], names[8], names[9], names[-1]] if len(names) > 9 else [names[0], names[-1]])
    kind = sym.choose("kind", ["modify", "remove-manifest", "remove-chain"])
    target = posixpath.join(hist, "ascmhl", name)
    if kind == "modify":
        b.alter(target, sym.choose("edit_kind", [1, 2]))
        exp, exc = 31, "ModifiedMHLManifestFileException"
    elif kind == "remove-chain":
        b.delete(posixpath.join(hist, "ascmhl", "ascmhl_chain.xml"))
        exp, exc = 32, "NoMHLChainException"
    else:
        b.delete(target)
        exp, exc = 33, "MissingMHLManifestException"
    cmd = sym.choose("command", ["verify", "create", "info", "diff"])
    before = b.snapshot("")
    r = {"verify": lambda: b.run("verify", root=R), "create": lambda: b.run("create", root=R, h=["md5"]),
         "info": lambda: b.run("info", root=R), "diff": lambda: b.run("diff", root=R)}[cmd]()
    ctx = "generation %s of %s (%d generations) %s; %s -> exit %s exc %s" % (name[:4], hist, len(names), kind, cmd, r.exit, r.exc)
    b.require(r.exit == exp and r.exc == exc, "refused-with-dedicated-code", "expected %d: %s" % (exp, ctx))
    after = b.snapshot("")
    b.require(sorted(before) == sorted(after) and all(truth(b.same_node(before[p], after[p])) for p in before), "tree-unchanged", ctx)


LEVEL_NOTE = ("'Every byte position and kind of edit' is covered compositionally: C01 shows the digest input is the whole byte range for "
              "every length, so any edit yields a different content id, and collision-freeness gives a different c4.")


def harnesses(tier):
    return [Harness("c05-tamper", scenario(tier), frontier=6, budget_s=2400,
                    what="histories built by real creates over U2 (nested layouts up to depth 4, 1-3 root generations); one manifest of any "
                         "history/generation modified or removed, or a chain removed; then each of 9 history-reading command forms",
                    bounds={"layouts": LAYOUTS, "root generations": "1-2 (quick) / 1-3 (thorough)", "commands": COMMANDS,
                            "tamper": "7 kinds of byte edit (model: content id differs) | manifest removed | chain removed"},
                    outside=["edits that keep the bytes identical", "manifests present in the folder but not listed in the chain",
                             "info -sf without explicit root (consults only the nearest enclosing history)", "two simultaneous tampers"]),
            Harness("c05-long-chain", long_chain, frontier=4, budget_s=900,
                    what="flat / nested history with 10-11 generations; generation 1, 9, 10 or the last one modified or removed; verify / create / info / diff",
                    bounds={"generations": "10-11"}, outside=[])]
