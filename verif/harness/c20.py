"""C20 - The background update check can never change or stall a command."""
import json
import os
import subprocess
import sys
import tempfile
import time

from ..runner import Harness
from ..pse import truth, SymInt
from .. import pse

BEHAVIOURS = ["conn-error", "timeout-exc", "http-500", "http-429-ratelimited", "json-invalid", "json-null", "json-list", "json-no-tag",
              "tag:v99.0.0", "tag:99.0.0", "tag:0.0.1", "tag:99.0.0rc1", "tag:99.0.0.dev1", "tag:garbage", "tag:",
              "tag:release-99.1", "tag:v1.1.2026092714223300000000-nightly", "tag:" + "9" * 400, "tag:1." * 60 + "x"]
HANG = 10 ** 9
OUTCOMES = ["ok", "fails-11", "fails-30"]
LATENCIES = [0, 300, 900, 2500, 4000, 60000]


def make_get(behaviour, on_call):
    import requests

    class Resp:
        status_code = {"http-500": 500, "http-429-ratelimited": 429}.get(behaviour, 200)
        ok = status_code < 400
        reason = "rate limit exceeded" if status_code == 429 else "OK"
        # what GitHub sends with a rate-limited answer
        headers = {"X-RateLimit-Limit": "60", "X-RateLimit-Remaining": "0", "X-RateLimit-Reset": str(int(time.time()) + 600),
                   "Retry-After": "600"} if behaviour == "http-429-ratelimited" else {"X-RateLimit-Remaining": "59"}

        def raise_for_status(self):
            if behaviour == "http-500":
                raise requests.exceptions.HTTPError("500 Server Error", response=self)
            if behaviour == "http-429-ratelimited":
                raise requests.exceptions.HTTPError("429 Client Error: rate limit exceeded", response=self)

        def json(self):
            if behaviour == "json-invalid":
                raise requests.exceptions.JSONDecodeError("Expecting value", "<html>", 0)
            if behaviour == "json-null":
                return None
            if behaviour == "json-list":
                return []
            if behaviour == "json-no-tag":
                return {"name": "x"}
            return {"tag_name": behaviour.split(":", 1)[1]}

    def get(url, *a, **k):
        on_call()
        if behaviour == "conn-error":
            raise requests.exceptions.ConnectionError("refused")
        if behaviour == "timeout-exc":
            raise requests.exceptions.Timeout("timed out")
        return Resp()

    return get


class Ms:
    """a modelled duration / clock reading in milliseconds (int or SymInt) that mixes with the seconds the code computes with"""

    def __init__(self, ms):
        self.ms = ms

    @staticmethod
    def of(x):
        if isinstance(x, Ms):
            return x.ms
        if isinstance(x, SymInt):
            return x * 1000
        return int(round(x * 1000))

    def __add__(self, o):
        return Ms(self.ms + Ms.of(o))

    __radd__ = __add__

    def __sub__(self, o):
        return Ms(self.ms - Ms.of(o))

    def __rsub__(self, o):
        return Ms(Ms.of(o) - self.ms)

    def __neg__(self):
        return Ms(-self.ms)

    def __lt__(self, o):
        return self.ms < Ms.of(o)

    def __le__(self, o):
        return self.ms <= Ms.of(o)

    def __gt__(self, o):
        return self.ms > Ms.of(o)

    def __ge__(self, o):
        return self.ms >= Ms.of(o)

    def __eq__(self, o):
        return self.ms == Ms.of(o)

    __hash__ = None

    def __float__(self):
        if isinstance(self.ms, SymInt):
            raise pse.Concretisation("float(modelled time)")
        return self.ms / 1000.0


def model(sym):
    from ..backend import _no_network
    _no_network()
    import types
    import requests
    import ascmhl.cli.update as U
    tool = sym.choose("tool", ["ascmhl", "ascmhl-debug"])
    if tool == "ascmhl":
        import ascmhl.cli.ascmhl as CLI
    else:
        import ascmhl.cli.ascmhl_debug as CLI
    behaviour = sym.choose("server_behaviour", BEHAVIOURS)
    hang = sym.flag("server_never_answers")
    L = HANG if hang else sym.choose("response_latency_ms", LATENCIES)
    D = sym.int("command_duration_ms", 0, 5000)
    st = {"ctx": "main", "gets_main": 0, "gets_checker": 0, "prints_main": [], "prints_checker": [], "joins": [], "delay": 0,
          "visible": False, "written": [], "reads": 0}

    def on_call():
        st["gets_" + st["ctx"]] += 1
        if st["ctx"] == "main":
            # the request runs on the command's own thread: the command waits for the server
            st["delay"] = st["delay"] + L

    fake_requests = types.SimpleNamespace(get=make_get(behaviour, on_call), exceptions=requests.exceptions, RequestException=requests.RequestException)

    def echo(msg=None, **k):
        st["prints_" + st["ctx"]].append(str(msg))

    import click as _click

    class ClickProxy:
        def __getattr__(self, k):
            return getattr(_click, k)

    fake_click = ClickProxy()
    fake_click.secho = fake_click.echo = echo
    outcome = sym.choose("command_outcome", OUTCOMES)
    import ascmhl.logger as LG
    verbose_cmd = sym.flag("command_run_with_v")
    # schedule: if the answer arrives after the join gave up, the checker thread's body runs (atomically) just before the
    # k-th read the main thread makes of the updater object, or not at all before the process ends
    k_sched = sym.int("late_thread_runs_before_read", 1, 9)

    def thread_body(spy):
        if st.get("ran"):
            return
        st["ran"] = True
        prev, st["ctx"] = st["ctx"], "checker"
        # the command switches verbose logging on when it starts; a checker thread that finished before that saw it off
        prev_v, LG.verbose_logging = LG.verbose_logging, bool(verbose_cmd and (hang or L > 0))
        t_cpu = time.process_time()
        try:
            try:
                U.Updater.run(spy)
            except Exception:
                pass  # an uncaught exception only kills the checker thread
        finally:
            st["ctx"] = prev
            LG.verbose_logging = prev_v
            # processor time the thread body burns (beyond the modelled network wait) is taken from the one interpreter lock the
            # command needs as well: in the worst case (C code that does not release it) the command stalls for that long
            burnt = int((time.process_time() - t_cpu) * 1000)
            if burnt > 400:
                st["delay"] = st["delay"] + 5000  # a fixed amount: the decision tree must not depend on the measured value

    def main_clock():
        """milliseconds on the command's thread since the checker was started: the command's own duration once it has run, plus waits"""
        return (D if st.get("armed") else 0) + st["delay"]

    def block(spy, timeout):
        """the command's thread blocks for at most `timeout` (None: until the checker is done); True iff the checker finished meanwhile"""
        if st.get("ran"):
            return True
        remaining = L - main_clock()
        if timeout is None:
            wait = remaining if truth(remaining > 0) else 0
        else:
            tms = Ms.of(timeout)
            if truth(tms < 0):
                tms = 0
            if truth(remaining <= 0):
                wait = 0
            elif truth(remaining <= tms):
                wait = remaining
            else:
                wait = tms
        before = main_clock()
        st["delay"] = st["delay"] + wait
        if truth(L <= before + wait):
            st["visible"] = True
            thread_body(spy)  # the thread finished before the wait returned
            return True
        return False

    class FakeTime:
        @staticmethod
        def monotonic():
            return Ms(main_clock())

        perf_counter = monotonic

        @staticmethod
        def time():
            return time.time()  # calendar time is the real one (only durations are modelled)

        @staticmethod
        def sleep(s):
            st["delay"] = st["delay"] + Ms.of(s)

    import queue as _queue

    class FakeQueue:
        def __init__(self, maxsize=0):
            self.items = []

        def put(self, x, block=True, timeout=None):
            self.items.append(x)

        put_nowait = put

        def empty(self):
            return not self.items

        def qsize(self):
            return len(self.items)

        def get(self, block=True, timeout=None):
            if self.items:
                return self.items.pop(0)
            if not block:
                raise _queue.Empty
            if st["ctx"] != "main":
                raise pse.HarnessError("queue.get on the checker thread is not modelled")
            if timeout is not None and truth(Ms.of(timeout) < 0):
                raise ValueError("'timeout' must be a non-negative number")
            st["joins"].append("queue.get(%s)" % ("None" if timeout is None else "timeout"))
            block_on = st.get("spy")
            if block_on is not None:
                block(block_on, timeout)
            if self.items:
                return self.items.pop(0)
            if timeout is None:
                st["delay"] = st["delay"] + HANG  # blocks for ever
            raise _queue.Empty

        def get_nowait(self):
            return self.get(False)

    fake_queue = types.SimpleNamespace(Queue=FakeQueue, SimpleQueue=FakeQueue, LifoQueue=FakeQueue, Empty=_queue.Empty, Full=_queue.Full)

    class Spy(U.Updater):
        def start(self):
            st["started"] = st.get("started", 0) + 1

        def join(self, timeout=None):
            if not st.get("started"):
                raise RuntimeError("cannot join thread before it is started")  # what threading.Thread does
            st["joins"].append(timeout if not isinstance(timeout, Ms) else "computed")
            block(self, timeout)

        def is_alive(self):
            return bool(st.get("started")) and not st.get("ran")

        def __getattribute__(self, name):
            if st["ctx"] == "main" and st.get("armed") and not name.startswith("__") and name not in ("join", "start", "run", "daemon"):
                st["reads"] += 1
                if not st.get("ran") and not hang and truth(k_sched == st["reads"]):
                    thread_body(self)
            return object.__getattribute__(self, name)

    saved = (U.requests, CLI.updater, CLI.click)
    saved_lg = (LG.click, LG.verbose_logging)
    saved_uclick = U.__dict__.get("click")
    U.requests, CLI.click = fake_requests, fake_click
    if saved_uclick is not None:
        U.click = fake_click
    LG.click, LG.verbose_logging = fake_click, verbose_cmd
    import time as _time
    saved_mods = {}
    for mod in (U, CLI):
        for name, real_mod, fake in (("time", _time, FakeTime), ("queue", _queue, fake_queue)):
            if mod.__dict__.get(name) is real_mod:
                saved_mods[(mod, name)] = real_mod
                setattr(mod, name, fake)
    # what an earlier invocation of the tool may have left behind in the user's cache / config folders
    earlier = sym.choose("earlier_invocation_got", ["nothing", "http-429-ratelimited", "tag:v99.0.0"])
    import shutil
    home = tempfile.mkdtemp(prefix="mhlverif-c20-home-")
    saved_env = {k: os.environ.get(k) for k in ("HOME", "XDG_CACHE_HOME", "XDG_CONFIG_HOME", "XDG_STATE_HOME")}
    os.environ.update(HOME=home, XDG_CACHE_HOME=home + "/cache", XDG_CONFIG_HOME=home + "/config", XDG_STATE_HOME=home + "/state")
    try:
        if earlier != "nothing":
            U.requests = types.SimpleNamespace(get=make_get(earlier, lambda: None), exceptions=requests.exceptions, RequestException=requests.RequestException)
            first = Spy()
            if st.get("started"):
                ctx0, st["ctx"] = st["ctx"], "checker"
                try:
                    U.Updater.run(first)
                except Exception:
                    pass
                st["ctx"] = ctx0
            st["prints_checker"], st["prints_main"], st["started"] = [], [], 0
            U.requests = fake_requests
        spy = Spy()
        st["spy"] = spy
        pse.require(st.get("started", 0) <= 1, "thread-started-once", str(st.get("started")))
        CLI.updater = spy
        # the command group is driven the way the console script drives it, with a stand-in command that takes D ms and ends
        # like a real one does: normally, or with one of the tool's error codes
        import ascmhl.errors as ER
        from click.testing import CliRunner
        group = CLI.mhltool_cli if tool == "ascmhl" else CLI.mhldebugtool_cli

        @_click.command(name="verif-stand-in")
        def stand_in():
            st["armed"] = True  # from here on the command's thread clock reads D
            st["prints_main"].append("<command output>")
            if outcome == "fails-11":
                raise ER.VerificationFailedException()
            if outcome == "fails-30":
                raise ER.NoMHLHistoryException("x")

        group.add_command(stand_in)
        try:
            res = CliRunner(mix_stderr=False).invoke(group, ["verif-stand-in"])
        finally:
            group.commands.pop("verif-stand-in", None)
        want_exit = {"ok": 0, "fails-11": 11, "fails-30": 30}[outcome]
        raised = None
        if res.exception is not None and not isinstance(res.exception, SystemExit):
            raised = "%s: %s" % (type(res.exception).__name__, res.exception)
        tag = "server %s%s, command %s" % (behaviour, " (never answers)" if hang else "", outcome)
        pse.require(not st["prints_checker"], "checker-thread-prints", str(st["prints_checker"]))
        pse.require(raised is None, "result-callback-raises", "%s: %s" % (tag, raised))
        pse.require(res.exit_code == want_exit, "exit-code-changed", "%s: exit %r, the command alone exits %r" % (tag, res.exit_code, want_exit))
        pse.require(st["prints_main"][:1] == ["<command output>"], "stdout-changed", "%s: %r" % (tag, st["prints_main"][:2]))
        st["prints_main"] = st["prints_main"][1:]
        pse.require(st["gets_main"] == 0 or truth(st["delay"] <= 1000), "termination-delayed-more-than-1s", tag + " (request on the main thread)")
        # the interpreter waits for non-daemon threads at exit
        total = st["delay"]
        if not spy.daemon and not st["visible"]:
            total = total + (L - D - st["delay"])  # the rest of the server's latency
        pse.require(truth(total <= 1000), "termination-delayed-more-than-1s",
                    "%s: join timeouts %s, daemon %s" % (tag, st["joins"], spy.daemon))
        pse.require(len(st["prints_main"]) <= 1, "more-than-one-notice", str(st["prints_main"]))
        for p in st["prints_main"]:
            pse.require("update" in p.lower(), "unexpected-output", p)
    finally:
        U.requests, CLI.updater, CLI.click = saved
        if saved_uclick is not None:
            U.click = saved_uclick
        LG.click, LG.verbose_logging = saved_lg
        for (mod, name), real_mod in saved_mods.items():
            setattr(mod, name, real_mod)
        for k, v in saved_env.items():
            if v is None:
                os.environ.pop(k, None)
            else:
                os.environ[k] = v
        shutil.rmtree(home, ignore_errors=True)


REAL_SCRIPT = r'''
import json, os, sys, time
sys.path.insert(0, "/verif")
cfg = json.loads(sys.argv[1])
if cfg.get("home"):
    os.environ.update(HOME=cfg["home"], XDG_CACHE_HOME=cfg["home"] + "/cache", XDG_CONFIG_HOME=cfg["home"] + "/config", XDG_STATE_HOME=cfg["home"] + "/state")
import requests
from click.testing import CliRunner
import ascmhl.commands as C
v = ["-v"] if cfg.get("verbose") else []
cmd = "info" if cfg["tool"] == "ascmhl" else "verify"
argv = [cmd] + v + [cfg["dir"]]
CliRunner().invoke(C.create, [cfg["dir"], "-h", "md5"])   # a sealed folder, so that the command succeeds and the result callback runs
if cfg.get("outcome") == "fails-11":
    # the file is altered after sealing: create (ascmhl) / verify (ascmhl-debug) end with the verification-failed code
    open(os.path.join(cfg["dir"], "f.txt"), "w").write("altered")
    cmd = "create" if cfg["tool"] == "ascmhl" else "verify"
    argv = [cmd] + v + [cfg["dir"]] + (["-h", "md5"] if cmd == "create" else [])
elif cfg.get("outcome") == "fails-30":
    # a folder without a history: info / verify end with the no-history code
    other = cfg["dir"] + "-unsealed"
    os.makedirs(other, exist_ok=True)
    open(os.path.join(other, "g.txt"), "w").write("y")
    argv = [cmd] + v + [other]
bare = CliRunner(mix_stderr=False).invoke(getattr(C, cmd), argv[1:])   # the command itself, outside the group: no update check
from verif.harness.c20 import make_get
calls = []
inner = make_get(cfg["behaviour"], lambda: calls.append(1))
def get(url, *a, **k):
    time.sleep(cfg["latency_s"])
    return inner(url, *a, **k)
requests.get = get
# importing the CLI module starts the checker thread: the command is run right after it
if cfg["tool"] == "ascmhl":
    from ascmhl.cli.ascmhl import mhltool_cli as cli
else:
    from ascmhl.cli.ascmhl_debug import mhldebugtool_cli as cli
# the command's own duration (what it spends reading and hashing before it ends): the history loader, which every command calls
# right after it has set up logging, takes busy_s longer
import ascmhl.history as _H
_load = _H.MHLHistory.load_from_path.__func__
def _slow_load(cls, *a, **k):
    time.sleep(cfg.get("busy_s", 0))
    return _load(cls, *a, **k)
_H.MHLHistory.load_from_path = classmethod(_slow_load)
t0 = time.time()
res = CliRunner(mix_stderr=False).invoke(cli, argv)
t1 = time.time()
exc = lambda r: None if r.exception is None or isinstance(r.exception, SystemExit) else repr(r.exception)
print("RESULT " + json.dumps({"exit": res.exit_code, "stdout": res.stdout, "t_cmd": t1 - t0, "exc": exc(res),
                              "bare_exit": bare.exit_code, "bare_stdout": bare.stdout, "bare_exc": exc(bare)}))
sys.stdout.flush()
'''


def run_real(cfg):
    t0 = time.time()
    p = subprocess.run([sys.executable, "-c", REAL_SCRIPT, json.dumps(cfg)], capture_output=True, text=True, timeout=120)
    wall = time.time() - t0
    for l in p.stdout.split("\n"):
        if l.startswith("RESULT "):
            d = json.loads(l[7:])
            d["wall"] = wall
            d["returncode"] = p.returncode
            return d
    return {"exit": None, "stdout": p.stdout, "stderr": p.stderr[-500:], "wall": wall, "returncode": p.returncode, "t_cmd": wall}


def real(sym):
    tool = sym.choose("tool", ["ascmhl", "ascmhl-debug"])
    behaviour = sym.choose("server_behaviour", BEHAVIOURS)
    hang = sym.flag("server_never_answers")
    L = sym.choose("response_latency_ms", LATENCIES) if not hang else HANG
    outcome = sym.choose("command_outcome", OUTCOMES)
    earlier = sym.choose("earlier_invocation_got", ["nothing", "http-429-ratelimited", "tag:v99.0.0"])
    busy = sym.int("command_duration_ms", 0, 5000) / 1000.0
    sym.int("late_thread_runs_before_read", 1, 9)
    verbose_cmd = sym.flag("command_run_with_v")
    d = tempfile.mkdtemp(prefix="mhlverif-c20-")
    try:
        open(os.path.join(d, "f.txt"), "w").write("x")
        home = d + "-home"
        if earlier != "nothing":
            # an earlier, complete invocation of the tool by the same user (same cache / config folders)
            run_real({"tool": tool, "behaviour": earlier, "latency_s": 0, "dir": d, "verbose": False, "busy_s": 0, "outcome": "ok", "home": home})
        base = run_real({"tool": tool, "behaviour": "conn-error", "latency_s": 0, "dir": d, "verbose": verbose_cmd, "busy_s": busy, "outcome": outcome})  # timing reference only
        lat = 20.0 if hang else min(L, 4000) / 1000.0
        got = run_real({"tool": tool, "behaviour": behaviour, "latency_s": lat, "dir": d, "verbose": verbose_cmd, "busy_s": busy, "outcome": outcome, "home": home})
        tag = "server %s latency %.1fs%s, command %s" % (behaviour, lat, " (hang)" if hang else "", outcome)
        pse.require(got.get("exit") is not None, "command-did-not-finish", "%s: %s" % (tag, str(got)[:300]))
        pse.require(got["exc"] == got["bare_exc"], "result-callback-raises", "%s: %s" % (tag, got.get("exc")))
        pse.require(got["exit"] == got["bare_exit"] and got["returncode"] == 0, "exit-code-changed", "%s: %r vs %r" % (tag, got.get("exit"), got.get("bare_exit")))
        extra = got["stdout"][len(got["bare_stdout"]):] if got["stdout"].startswith(got["bare_stdout"]) else None
        pse.require(extra is not None, "stdout-changed", "%s: %r vs %r" % (tag, got["stdout"][-200:], got["bare_stdout"][-200:]))
        lines = [l for l in extra.split("\n") if l.strip()]
        pse.require(len(lines) <= 1 and all("update" in l.lower() for l in lines), "unexpected-output", "%s: %r" % (tag, lines))
        # timing is judged relative to a reference run with an immediately refused connection, and a slow run is repeated twice
        # (a loaded machine must not turn into an alarm): all three attempts have to be too slow
        def too_slow(g, b0):
            return g["t_cmd"] - b0["t_cmd"] > 1.5 or g["wall"] - b0["wall"] > 2.2
        if too_slow(got, base):
            for attempt in range(2):
                base2 = run_real({"tool": tool, "behaviour": "conn-error", "latency_s": 0, "dir": d, "verbose": verbose_cmd, "busy_s": busy, "outcome": outcome})
                got2 = run_real({"tool": tool, "behaviour": behaviour, "latency_s": lat, "dir": d, "verbose": verbose_cmd, "busy_s": busy, "outcome": outcome, "home": home})
                if not too_slow(got2, base2):
                    break
            pse.require(not too_slow(got2, base2), "termination-delayed-more-than-1s",
                        "%s: command took %.2fs / %.2fs (reference %.2fs / %.2fs), process %.2fs / %.2fs (reference %.2fs / %.2fs)"
                        % (tag, got["t_cmd"], got2["t_cmd"], base["t_cmd"], base2["t_cmd"], got["wall"], got2["wall"], base["wall"], base2["wall"]))
    finally:
        import shutil
        shutil.rmtree(d, ignore_errors=True)
        shutil.rmtree(d + "-unsealed", ignore_errors=True)
        shutil.rmtree(d + "-home", ignore_errors=True)


def fn(sym):
    if sym.symbolic:
        model(sym)
    else:
        real(sym)


LEVEL_NOTE = ("Concurrency is decided on a bounded model only: Thread.start does not spawn; the checker's run() is executed in 'checker context' and its "
              "single write of latest_version becomes visible to the main flow at a symbolic point (before the join returns if the symbolic latency "
              "allows, else after a symbolic number of reads, or never); join(timeout) / queue.get(timeout) advance the main flow's clock by "
              "min(timeout, remaining); time.monotonic()/time() in the updater read that clock (command duration symbolic). "
              "Real threads, sockets and wall-clock time are exercised only in the real replays.")


def harnesses(tier):
    return [Harness("c20-updater", fn, mode="unit", frontier=5, budget_s=900, conformance=3,
                    what="Updater.__init__/run/_get_latest_version/needs_update and the result callbacks of both CLI groups against 14 server behaviours "
                         "x latency (6 values from 0 to 60 s, or never) x symbolic command duration x symbolic point at which a late write becomes visible",
                    bounds={"behaviours": BEHAVIOURS, "latency": "one of %s ms or never" % LATENCIES, "command duration": "0..5000 ms", "schedule": "late thread body runs before the k-th read (k = 1..9) of the updater object by the main thread, or never"},
                    outside=["real thread scheduling, sockets, DNS, TLS", "wall-clock jitter (replays allow 0.6 s slack)"],
                    stubs=["threading.Thread.start/join/is_alive, queue.Queue, time.monotonic/time/sleep, requests.get, click.secho: updater model"])]
