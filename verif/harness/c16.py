"""C16 - Recorded size and timestamps describe the real file in any time zone."""
import re
import posixpath
from ..runner import Harness
from ..pse import truth
from .. import pse

ISO_RE = re.compile(r"^\d{4}-\d{2}-\d{2}T\d{2}:\d{2}:\d{2}(\.\d{1,6})?[+-]\d{2}:\d{2}$")
NAME_RE = re.compile(r"^\d{4}_R_(\d{4})-(\d{2})-(\d{2})_(\d{2})(\d{2})(\d{2})Z\.mhl$")
DAY = 86400


def in_window(t, win):
    return (t >= win[0]) & (t <= win[1]) if not isinstance(t, int) else (win[0] <= t <= win[1])


def scenario(tier):
    def fn(b, sym):
        std = 60 * sym.int("std_offset_minutes", -840, 840)
        has_dst = sym.flag("zone_has_dst")
        dst = std + 3600 if has_dst else std
        age = sym.int("file_age_s", 0, 300 * DAY)
        dst_now = sym.flag("dst_in_force_now") if has_dst else False
        dst_file = sym.flag("dst_in_force_at_file_time") if has_dst else False
        if has_dst:
            differ = (dst_now != dst_file) if isinstance(dst_now, bool) else pse.SymBool(dst_now.z != dst_file.z)
            # a daylight-saving period lasts months: the two instants are at least 10 days apart when their DST flags differ,
            # and a file time equal to 'now' has the same flag
            if isinstance(differ, bool):
                sym.assume((not differ) or age >= 10 * DAY)
            else:
                sym.assume(pse.SymBool(pse.z3.Implies(differ.z, pse._z(age) >= 10 * DAY)))
        # the file's modification time may lie in the hour that is repeated when daylight saving ends (second occurrence: standard time)
        rep = sym.flag("file_time_in_repeated_hour") if has_dst else False
        if has_dst:
            if isinstance(rep, bool):
                sym.assume((not rep) or (not dst_file))
                sym.assume((not rep) or age >= 3 * DAY)
            else:
                sym.assume(pse.SymBool(pse.z3.Implies(rep.z, pse.z3.And(pse.z3.Not(pse._zb(dst_file)), pse._z(age) >= 3 * DAY))))
        size = sym.int("size", 0, 3)
        now = b.current_now()
        t_file = now - age
        t2 = t_file - 3600
        if has_dst:
            dst2 = (dst_file | rep) if not (isinstance(dst_file, bool) and isinstance(rep, bool)) else (dst_file or rep)
        else:
            dst2 = False
        b.set_zone(std, dst, dst_now, dst_file, t_file, rep, extra=((t2, dst2),))
        b.mkfile("R/clip.mov", 5, size=size, mtime=t_file)
        b.mkfile("R/clip2.mov", 6, size=4, mtime=t2)
        r = b.run("create", root="R", h=["md5", "c4"] if tier != "quick" else ["md5"], v=False)
        b.require(r.exit == 0 and r.exc is None, "create-exit-0", str(r))
        win = b.now_window()
        names = b.manifest_names("R")
        b.require(len(names) == 1, "one-manifest", str(names))
        m = b.manifests("R")[0]
        rec = m.record("clip.mov")
        b.require(rec is not None, "file-recorded", "")
        off_at = lambda flag: dst if (flag is True) else (std if flag is False else pse.SymInt(pse.z3.If(flag.z, pse._z(dst), pse._z(std))))
        off_now, off_file = off_at(dst_now), off_at(dst_file)
        # size
        sz = b.int_attr(rec.size)
        b.require(sz is not None and truth(sz == size), "size-attribute", "recorded %r" % (rec.size if b.real else "sym"))
        # last modification date: the file's instant, with the offset in force at that instant
        for what, raw, t_exp, off_exp, exact in (("lastmodificationdate", rec.lastmod, t_file, off_file, True),
                                                ("creationdate", m.creator.get("creationdate"), None, off_now, False)) + \
                tuple(("hashdate " + e.fmt, e.hashdate, None, off_now, False) for e in rec.entries):
            b.require(raw is not None, "date-present", what)
            if b.real:
                b.require(ISO_RE.match(raw) is not None, "date-well-formed", "%s=%r" % (what, raw))
            d = b.date_attr(raw)
            b.require(d is not None and d[2] is not None, "date-has-offset", what)
            if exact:
                b.require(truth(d[0] == t_exp), "date-denotes-instant", "%s: written value is not the file's modification instant%s"
                          % (what, "" if not b.real else " (%r, expected epoch %d)" % (raw, t_exp)))
            else:
                b.require(truth(in_window(d[0], win)), "date-denotes-instant", "%s: written value is not the time of the run%s"
                          % (what, "" if not b.real else " (%r, window %s)" % (raw, win)))
            b.require(truth(d[2] == off_exp), "date-offset-in-force", "%s: offset differs from the zone's offset at that instant%s"
                      % (what, "" if not b.real else " (%r, expected %d s)" % (raw, off_exp)))
            if not b.real:
                from ..clock import IsoStr
                b.require(not isinstance(raw, IsoStr) or raw.fmt == "iso", "date-well-formed", what)
        rec2 = m.record("clip2.mov")
        b.require(rec2 is not None and rec2.lastmod is not None, "file-recorded", "clip2.mov")
        d2 = b.date_attr(rec2.lastmod)
        b.require(truth(d2[0] == t2), "date-denotes-instant", "lastmodificationdate of the second file (one hour earlier) is not its modification instant%s"
                  % ("" if not b.real else " (%r, expected epoch %d)" % (rec2.lastmod, t2)))
        b.require(truth(d2[2] == off_at(dst2)), "date-offset-in-force", "second file: offset differs from the zone's offset at that instant")
        # manifest name carries the UTC time of the run
        mm = NAME_RE.match(names[0])
        b.require(mm is not None, "manifest-name-shape", names[0])
        import calendar
        y, mo, dd, hh, mi, ss = map(int, mm.groups())
        t_name = calendar.timegm((y, mo, dd, hh, mi, ss))
        b.require(truth(in_window(t_name, win)), "manifest-name-utc", "%s vs run window %s" % (names[0], win))
    return fn


# zones whose rules changed: (zone database name, offset by today's rules, an instant in the past, the offset in force then)
ZONE_HISTORY = [("Europe/Moscow", 10800, 1342353600, 14400),        # 2012-07-15: permanent "summer time" UTC+4, since 2014 UTC+3
                ("America/Sao_Paulo", -10800, 1544875200, -7200),   # 2018-12-15: daylight saving, abolished in 2019
                ("Europe/Istanbul", 10800, 1421323200, 7200)]       # 2015-01-15: winter time UTC+2, since 2016 permanently UTC+3


def zone_history(b, sym):
    """a file whose modification time lies in a period in which the zone had other rules than today (material from the archive)"""
    name, std_now, t_file, off_then = sym.choose("zone", ZONE_HISTORY)
    b.set_zone_history(name, std_now, t_file, off_then)
    b.mkfile("R/clip.mov", 5, size=4, mtime=t_file)
    r = b.run("create", root="R", h=["md5"])
    b.require(r.exit == 0 and r.exc is None, "create-exit-0", str(r))
    win = b.now_window()
    m = b.manifests("R")[0]
    rec = m.record("clip.mov")
    b.require(rec is not None and rec.lastmod is not None, "file-recorded", "")
    d = b.date_attr(rec.lastmod)
    b.require(d is not None and d[2] is not None, "date-has-offset", "lastmodificationdate")
    b.require(truth(d[0] == t_file), "date-denotes-instant", "lastmodificationdate in %s: written value is not the file's modification instant%s"
              % (name, "" if not b.real else " (%r, expected epoch %d)" % (rec.lastmod, t_file)))
    b.require(truth(d[2] == off_then), "date-offset-in-force", "lastmodificationdate in %s: offset differs from the one in force at that instant%s"
              % (name, "" if not b.real else " (%r, expected %d s)" % (rec.lastmod, off_then)))
    for what, raw in [("creationdate", m.creator.get("creationdate"))] + [("hashdate " + e.fmt, e.hashdate) for e in rec.entries]:
        dd = b.date_attr(raw)
        b.require(dd is not None and truth(in_window(dd[0], win)), "date-denotes-instant", "%s in %s is not the time of the run" % (what, name))
        b.require(truth(dd[2] == std_now), "date-offset-in-force", "%s in %s: offset differs from today's" % (what, name))


def same_names_in_nested_histories(b, sym):
    """files with the same history-relative path, different sizes and modification times, in two nested histories and their parent:
    every record describes its own file (folder mode and one -sf run that names all of them)"""
    specs = {"R/A2/Sidecar.txt": (5, 3, 1610699412), "R/A3/Sidecar.txt": (6, 1120, 1626365144), "R/Sidecar.txt": (7, 40, 1600000000)}
    for f, (cid, size, mt) in specs.items():
        b.mkfile(f, cid, size=size, mtime=mt)
    b.use_fixed_offset(3600 * sym.choose("zone_hours", [0, 2]))
    for hr in ("R/A2", "R/A3"):
        r = b.run("create", root=hr, h=["md5"])
        b.require(r.exit == 0, "setup-create", str(r))
    mode = sym.choose("mode", ["folder", "sf-all", "sf-reversed"])
    names_before = {x: b.manifest_names(x) for x in ("R", "R/A2", "R/A3")}
    if mode == "folder":
        r = b.run("create", root="R", h=["md5"])
    else:
        sel = sorted(specs) if mode == "sf-all" else sorted(specs)[::-1]
        r = b.run("create", root="R", h=["md5"], sf=sel)
    b.require(r.exit == 0 and r.exc is None, "create-exit-0", str(r))
    for f, (cid, size, mt) in specs.items():
        hr = posixpath.dirname(f)
        new = [m for m in b.manifests(hr) if m.file not in names_before[hr]]
        b.require(len(new) == 1, "one-manifest", "%s: %d" % (hr, len(new)))
        rec = new[0].record("Sidecar.txt")
        b.require(rec is not None, "file-recorded", f)
        sz = b.int_attr(rec.size)
        b.require(sz is not None and truth(sz == size), "size-attribute", "%s (%s mode): recorded %r, the file has %d bytes" % (f, mode, rec.size if b.real else "sym", size))
        d = b.date_attr(rec.lastmod)
        b.require(d is not None and truth(d[0] == mt), "date-denotes-instant", "%s (%s mode): lastmodificationdate is not this file's modification instant" % (f, mode))


def flatten_dates(b, sym):
    """create under one fixed-offset zone, flatten under another: the dates in the packing list denote the same instants"""
    z1 = 60 * sym.choose("create_zone_minutes", [0, -480, 330])
    z2 = 60 * sym.choose("flatten_zone_minutes", [60, -480, -150])
    b.use_fixed_offset(z1)
    b.mkfile("R/clip.mov", 5, size=4, mtime=1577836800 + 12345)
    b.mkfile("R/d/b.txt", 6, size=0, mtime=1577000000)
    r = b.run("create", root="R", h=["md5", "c4"])
    b.require(r.exit == 0 and r.exc is None, "create-exit-0", str(r))
    src = b.manifests("R")[0]
    b.use_fixed_offset(z2)
    r = b.run("flatten", root="R", dest="OUT")
    b.require(r.exit == 0 and r.exc is None, "flatten-exit-0", str(r))
    win = b.now_window()
    pls = [p for p in b.walk_files("OUT") if p.endswith(".mhl")]
    b.require(len(pls) == 1, "one-packing-list", str(pls))
    pl = b.read_manifest_at(pls[0])
    cd = b.date_attr(pl.creator.get("creationdate"))
    b.require(cd is not None and truth(in_window(cd[0], win)) and truth(cd[2] == z2), "date-offset-in-force", "creationdate of the packing list: %r" % (pl.creator.get("creationdate"),))
    for rec in pl.files():
        s = src.record(rec.path)
        b.require(s is not None, "file-recorded", rec.path)
        sz = b.int_attr(rec.size)
        b.require(sz is not None and truth(sz == b.size("R/" + rec.path)), "size-attribute", rec.path)
        for e in rec.entries:
            se = s.entry(e.fmt)
            d0, d1 = b.date_attr(se.hashdate), b.date_attr(e.hashdate)
            b.require(d1 is not None and truth(d0[0] == d1[0]) and truth(d0[1] == d1[1]), "date-denotes-instant",
                      "hashdate of %s %s: %r in the history, %r in the packing list (zones %+d / %+d min)" % (rec.path, e.fmt, se.hashdate if b.real else "sym", e.hashdate if b.real else "sym", z1 // 60, z2 // 60))
        if rec.lastmod is not None:
            d = b.date_attr(rec.lastmod)
            b.require(truth(d[0] == b.mtime("R/" + rec.path)), "date-denotes-instant", "lastmodificationdate of %s in the packing list" % rec.path)


def harnesses(tier):
    return [Harness("c16-flatten", flatten_dates, frontier=3, budget_s=600,
                    what="create under a fixed-offset zone (UTC, -8 h, +5:30), flatten under another (+1 h, -8 h, -2:30): sizes and dates of the packing list",
                    bounds={"zones": "3 x 3 fixed offsets"}, outside=["DST zones for flatten (covered for create by c16-dates)"]),
            Harness("c16-same-names", same_names_in_nested_histories, frontier=3, budget_s=600,
                    what="three files with the same history-relative path (different sizes and modification times) in two nested histories and "
                         "their parent, recorded in folder mode or by one -sf run naming all three: each record carries its own file's size and date",
                    bounds={"modes": 3, "zones": "UTC | +2 h"}, outside=[]),
            Harness("c16-zone-history", zone_history, frontier=3, budget_s=600, real_opts={"clock": "real"},
                    what="a file whose modification time lies in a period in which the zone had other rules than today (Europe/Moscow 2012, "
                         "America/Sao_Paulo 2018, Europe/Istanbul 2015): lastmodificationdate carries the offset that was in force then, the "
                         "run's own dates today's offset",
                    bounds={"zones": [z[0] for z in ZONE_HISTORY]}, outside=["other zones of the database"],
                    stubs=["Zone.past: instant -> offset; time.timezone/altzone/tm_isdst follow today's rules, tm_gmtoff / astimezone() the database"]),
            Harness("c16-dates", scenario(tier), frontier=4, budget_s=900, real_opts={"clock": "real"},
                    what="create on one file: size 0..3 symbolic; zone = symbolic standard offset (whole minutes, +-14 h) with or without a +1 h "
                         "daylight offset; DST flag of 'now' and of the file's modification instant symbolic and independent; file age symbolic "
                         "up to 300 days: size / lastmodificationdate / hashdate / creationdate / manifest name checked against instants and offsets",
                    bounds={"std offset": "-840..840 minutes", "dst": "std or std+1h", "file age": "0..300 days",
                            "assumption": "instants whose DST flags differ are >= 10 days apart", "repeated hour": "file instant optionally in the second occurrence of the hour repeated at DST end"},
                    outside=["zones with sub-minute offsets", "historical zone rule changes other than the three of c16-zone-history", "mtimes with sub-second parts",
                             "dates before 1970"],
                    stubs=["time.timezone/altzone/localtime, datetime.now/fromtimestamp/replace/astimezone/isoformat/strftime: clock+zone model"])]
