"""C15 - An interrupted create never damages what was already recorded."""
import posixpath
from ..runner import Harness
from ..pse import truth
from . import common as cm

MAXOPS = {"quick": 70, "thorough": 140}


def scenario(tier):
    def fn(b, sym):
        if sym.flag("manifest_name_of_255_characters"):
            return long_name(b, sym)
        b.mkfile("R/a.txt", 1)
        b.mkfile("R/d/b.txt", 2)
        nested = sym.flag("nested_history_at_d")
        prior = sym.choose("prior_generations", [0, 1, 2])
        if nested:
            r = b.run("create", root="R/d", h=["md5"])
            b.require(r.exit == 0, "setup-create", str(r))
        for g in range(prior):
            r = b.run("create", root="R", h=["md5"])
            b.require(r.exit == 0, "setup-create", str(r))
        roots = ["R"] + (["R/d"] if nested else [])
        committed = {}
        for hr in roots:
            names = b.manifest_names(hr)
            committed[hr] = {"names": names, "tokens": {n: b.file_token(posixpath.join(hr, "ascmhl", n)) for n in names},
                             "chain": b.chain(hr) or []}
        if sym.flag("new_file_since"):
            b.mkfile("R/d/new.txt", 3)
        crash_at = sym.int("crash_at", 0, MAXOPS[tier]) if not sym.symbolic else sym.choose("crash_at", list(range(MAXOPS[tier] + 1)))
        torn = sym.flag("torn_write")
        same_second = sym.flag("next_is_single_file_create_in_the_same_second")
        if same_second:
            b.tick = 0
        r = b.run("create", root="R", h=["md5"], crash_at=crash_at, torn=torn)
        if r.exit != "killed":
            sym.assume(False)  # the run has fewer operations than crash_at: not a crash point
        tag = "create killed at operation %d%s (prior generations %d, nested %s)" % (crash_at, " (torn write)" if torn else "", prior, nested)
        b.note(tag)
        for hr in roots:
            was = committed[hr]
            # every previously committed manifest is byte-identical
            for n in was["names"]:
                p = posixpath.join(hr, "ascmhl", n)
                b.require(b.exists(p), "committed-manifest-removed", "%s: %s" % (tag, p))
                t = b.file_token(p)
                b.require(truth(t[0] == was["tokens"][n][0]) and truth(t[1] == was["tokens"][n][1]), "committed-manifest-modified", "%s: %s" % (tag, p))
            # the chain still parses and still lists every previously committed generation with its digest
            if was["chain"]:
                try:
                    ch = b.chain(hr)
                except Exception as ex:
                    if type(ex).__name__ != "Violation":
                        raise
                    b.require(False, "chain-unparsable-after-kill", "%s: %s chain: %s" % (tag, hr, ex.detail))
                b.require(ch is not None and len(ch) >= len(was["chain"]), "chain-lost-committed-generation",
                          "%s: %s chain lists %s of %d committed generations" % (tag, hr, "none" if ch is None else len(ch), len(was["chain"])))
                for e0, e1 in zip(was["chain"], ch):
                    b.require(e0.seq == e1.seq and e0.path == e1.path and truth(e0.c4 == e1.c4), "chain-committed-entry-changed", "%s: %s #%s" % (tag, hr, e0.seq))
            # the interrupted generation is either completely present (well-formed manifest listed in the chain) or absent
            new = [n for n in b.manifest_names(hr) if n not in was["names"]]
            b.require(len(new) <= 1, "interrupted-generation-atomic", "%s: %s has %d new manifests" % (tag, hr, len(new)))
            if new:
                try:
                    b.read_manifest_at(posixpath.join(hr, "ascmhl", new[0]))
                    wellformed = True
                except Exception as ex:
                    if type(ex).__name__ not in ("XMLSyntaxError", "ParseError", "ValueError"):
                        raise
                    wellformed = False
                b.require(wellformed, "half-written-manifest-under-final-name", "%s: %s/ascmhl/%s is not well-formed" % (tag, hr, new[0]))
                try:
                    ch = b.chain(hr) or []
                except Exception as ex:
                    if type(ex).__name__ != "Violation":
                        raise
                    ch = None
                    b.require(False, "chain-unparsable-after-kill", "%s: %s" % (tag, ex.detail))
                listed = any(e.path == new[0] for e in ch)
                b.require(listed, "manifest-present-but-not-chained", "%s: %s/ascmhl/%s exists but the chain does not list it" % (tag, hr, new[0]), soft=True)
        # the next commands load the history normally
        if same_second:
            # same generation number, same second: the run writes to the very temporary names the killed run left behind
            r2 = b.run("create", root="R", h=["md5"], sf=["R/a.txt"])
            b.tick = 10
            b.require(r2.exit == 0 and r2.exc is None, "next-command-aborts", "%s: create -sf afterwards exits %s (%s)" % (tag, r2.exit, r2.exc))
        for cmd in ("info", "verify", "create"):
            if cmd == "info" and prior == 0 and not b.manifest_names("R"):
                continue
            r2 = b.run(cmd, root="R") if cmd != "create" else b.run("create", root="R", h=["md5"])
            ok = r2.exit in (0, 10, 11, 21, 30) and (r2.exc is None or r2.exit >= 10)
            b.require(ok, "next-command-aborts", "%s: %s afterwards exits %s (%s)" % (tag, cmd, r2.exit, r2.exc))
            if cmd == "verify" and prior > 0:
                b.require(r2.exit in (0, 21), "next-verify-result", "%s: verify exits %s (%s)" % (tag, r2.exit, r2.exc))
        # ... and so do the commands after that create (whatever the interrupted run left behind must not poison later generations)
        for cmd in ("verify", "info"):
            r3 = b.run(cmd, root="R")
            ok = r3.exit in (0, 10, 11, 21, 30) and (r3.exc is None or r3.exit >= 10)
            b.require(ok, "next-command-aborts", "%s: %s after a further create exits %s (%s)" % (tag, cmd, r3.exit, r3.exc))
    return fn


def long_name(b, sym):
    """a history folder whose name makes the new manifest's file name exactly 255 characters (the temporary name would be longer)"""
    short, long_ = "L" * 223, "L" * 227
    b.mkfile(short + "/a.txt", 1)
    r = b.run("create", root=short, h=["md5"])
    b.require(r.exit == 0, "setup-create", str(r))
    b.rename(short, long_)
    names = b.manifest_names(long_)
    tok = {n: b.file_token(posixpath.join(long_, "ascmhl", n)) for n in names}
    chain0 = b.chain(long_)
    crash_at = sym.choose("crash_at_long", list(range(0, 30)))
    r = b.run("create", root=long_, h=["md5"], crash_at=crash_at, torn=sym.flag("torn_write"))
    if r.exit != "killed":
        sym.assume(False)
    tag = "create killed at operation %d in a folder with a 227 character name" % crash_at
    for n in names:
        t = b.file_token(posixpath.join(long_, "ascmhl", n))
        b.require(truth(t[0] == tok[n][0]), "committed-manifest-modified", "%s: %s" % (tag, n[:20]))
    ch = b.chain(long_)
    b.require(ch is not None and len(ch) >= len(chain0), "chain-lost-committed-generation", tag)
    for n in b.manifest_names(long_):
        if n in names:
            continue
        try:
            b.read_manifest_at(posixpath.join(long_, "ascmhl", n))
        except Exception as ex:
            if type(ex).__name__ not in ("XMLSyntaxError", "ParseError", "ValueError"):
                raise
            b.require(False, "half-written-manifest-under-final-name", "%s: new manifest (name of %d characters) is not well-formed" % (tag, len(n)))
    if sym.flag("folder_renamed_back_after_the_kill"):
        # the folder gets its shorter name back: the next chain is shorter than a chain temp file the killed run may have left
        b.rename(long_, short)
        long_ = short
        r2 = b.run("create", root=long_, h=["md5"])
        b.require(r2.exit == 0 and r2.exc is None, "next-command-aborts", "%s: create after renaming the folder back exits %s (%s)" % (tag, r2.exit, r2.exc))
        r2 = b.run("info", root=long_)
        b.require(r2.exit == 0 and r2.exc is None, "next-command-aborts", "%s: info after renaming the folder back and a create exits %s (%s)" % (tag, r2.exit, r2.exc))
    r2 = b.run("verify", root=long_)
    b.require(r2.exit in (0, 21) and r2.exc is None or r2.exit == 21, "next-command-aborts", "%s: verify afterwards exits %s (%s)" % (tag, r2.exit, r2.exc))


LEVEL_NOTE = ("The kill is modelled as a process kill: operations (mkdir, open for write, each write(), flush, close, replace, remove) take effect "
              "in program order up to a symbolic index, the write at that index optionally applied partially. Power-loss semantics (page cache, "
              "reordering) are outside the claim.")


def harnesses(tier):
    return [Harness("c15-crash", scenario(tier), frontier=5, budget_s=2400, conformance=4,
                    what="create on a history with 0-2 prior generations (flat or with a nested history) killed at every operation index of its "
                         "operation log (with the write at that index applied fully, partially or not at all); then committed manifests, chain, "
                         "atomicity of the interrupted generation, and info / verify / create afterwards",
                    bounds={"operations per run": "<= %d" % MAXOPS[tier], "prior generations": "0-2", "tree": "R/{a.txt,d/{b.txt,new.txt?}}"},
                    outside=["power loss (unflushed page cache, reordered writes)", "kills inside a single write() beyond 'half of it'"])]
