"""C07 - Directory hashes follow the compositional definition."""
import posixpath
from ..runner import Harness
from ..pse import truth
from . import common as cm

FMT6 = cm.FMT6


def check_dirhashes(b, manifest, hist_root, fmts, ignored, tag):
    """recorded directory / root hashes == reference evaluation of the definition over the current tree"""
    ref = {}

    def refs(fmt, rel):
        if (fmt, rel) not in ref:
            ref[(fmt, rel)] = b.dir_hashes(fmt, rel, ignored)
        return ref[(fmt, rel)]

    b.require(manifest.roothash is not None, "roothash-present", tag)
    got_fmts = sorted(e.fmt for e in manifest.roothash)
    b.require(got_fmts == sorted(fmts), "roothash-formats", "%s: %s vs %s" % (tag, got_fmts, sorted(fmts)))
    for e in manifest.roothash:
        c, s = refs(e.fmt, hist_root)
        b.require(truth(e.digest == c), "root-content-hash", "%s %s" % (tag, e.fmt))
        b.require(truth(e.structure == s), "root-structure-hash", "%s %s" % (tag, e.fmt))
    for rec in manifest.dirs():
        rel = posixpath.join(hist_root, rec.path)
        b.require(sorted(e.fmt for e in rec.entries) == sorted(fmts), "dir-formats", "%s %s: %s" % (tag, rec.path, [e.fmt for e in rec.entries]))
        for e in rec.entries:
            c, s = refs(e.fmt, rel)
            b.require(truth(e.digest == c), "dir-content-hash", "%s %s %s" % (tag, rec.path, e.fmt))
            b.require(truth(e.structure == s), "dir-structure-hash", "%s %s %s" % (tag, rec.path, e.fmt))
    return ref


def order_scenario(tier, deep=False):
    def fn(b, sym):
        b.mkfile("R/f1.txt", 1)
        if not deep and sym.flag("has_f2"):
            b.mkfile("R/f2.txt", 2)
        b.mkfile("R/d/f3.txt", 3)
        b.mkfile("R/d/f4.txt", sym.int("cid_f4", 3, 4))  # may equal f3's content
        if not deep and sym.flag("has_z"):
            b.mkdir("R/z")
        if deep:
            b.mkfile("R/d/e/f5.txt", 5)
            b.mkfile("R/d/e/f6.txt", 6)
        ignored = cm.make_ignored(cm.DEFAULT_IGNORES, "R")
        fmts = [sym.choose("format", ["md5"] if deep else (["md5", "c4"] if tier == "quick" else FMT6))]
        r = b.run("create", root="R", h=fmts)
        b.require(r.exit == 0 and r.exc is None, "create-exit-0", str(r))
        m = b.manifests("R")[-1]
        check_dirhashes(b, m, "R", fmts, ignored, "create")
    return fn


def scenario(tier):
    fsets = ([[f] for f in FMT6] + [["md5", "c4"], FMT6]) if tier != "quick" else [["md5"], ["c4"], ["xxh64", "sha1"]]

    def fn(b, sym):
        b.mkfile("R/f1.txt", 1)
        if sym.flag("has_f2"):
            b.mkfile("R/f2.txt", 2)
        b.mkfile("R/d/f3.txt", 3)
        b.mkfile("R/d/f4.txt", sym.choose("cid_f4", [3, 4]))  # may equal f3's content
        if sym.flag("has_nfd_names"):
            b.mkfile("R/d/Cafe\u0301.mov", 6)  # decomposed spelling (as macOS file systems produce it)
            b.mkfile("R/Re\u0301el/r1.txt", 7)
        if sym.flag("has_z"):
            b.mkdir("R/z")
        tmp = sym.flag("has_ignored")
        if tmp:
            b.mkfile("R/d/skip.tmp", 9)
        pats = ["*.tmp"] if tmp else []
        # patterns that contain a path separator are anchored at the history root: one that addresses an entry three levels
        # down, and one that would only match if it were applied relative to a sub folder (it must exclude nothing)
        deep = sym.choose("path_pattern", ["none", "d/e/deep.bin", "e/other.bin"])
        if deep != "none":
            if b.exists("R/f2.txt") or b.exists("R/z") or b.exists("R/Re\u0301el"):
                sym.assume(False)  # (keeps the number of paths in bounds: the path patterns are explored on the small tree)
            b.mkfile("R/d/e/deep.bin", 10)
            b.mkfile("R/d/e/other.bin", 11)
            pats = pats + [deep]
        ignored = cm.make_ignored(cm.DEFAULT_IGNORES + pats, "R")
        fmts = sym.choose("formats", fsets)
        hs = fmts[::-1] if sym.flag("reverse_h") else fmts
        if sym.flag("first_format_given_twice"):
            hs = hs + [hs[0]]
        nested_d = sym.flag("nested_history_at_d")
        if nested_d and deep != "none":
            sym.assume(False)  # what a pattern that names a path means inside a nested history is not specified by the statement
        if nested_d:
            # a nested history: its root hash is also recorded as directory entry of the parent and must follow the definition
            r = b.run("create", root="R/d", h=["md5"], i=pats)
            b.require(r.exit == 0, "setup-create", str(r))
            r = b.run("create", root="R", h=hs, i=pats)
            b.require(r.exit == 0 and r.exc is None, "create-exit-0", str(r))
            check_dirhashes(b, b.manifests("R")[-1], "R", fmts, ignored, "parent of nested history")
            check_dirhashes(b, b.manifests("R/d")[-1], "R/d", fmts, cm.make_ignored(cm.DEFAULT_IGNORES + pats, "R/d"), "nested history")
            return
        late = tmp and sym.flag("pattern_introduced_by_a_later_generation_without_directory_hashes")
        r = b.run("create", root="R", h=hs, i=[] if late else pats)
        b.require(r.exit == 0 and r.exc is None, "create-exit-0", str(r))
        m = b.manifests("R")[-1]
        ref1 = check_dirhashes(b, m, "R", fmts, cm.make_ignored(cm.DEFAULT_IGNORES, "R") if late else ignored, "gen1")
        if late:
            # the pattern enters the history through a generation that records no directory hashes (-n or -sf): it still is
            # part of the history's ignore specification and applies to every later evaluation
            if sym.flag("via_single_file"):
                r = b.run("create", root="R", h=hs, i=pats, sf=["R/f1.txt"])
            else:
                r = b.run("create", root="R", h=hs, i=pats, n=True)
            b.require(r.exit == 0 and r.exc is None, "create-exit-0", "pattern generation: %s" % r)
            ref1 = {}
            for f in fmts:
                ref1[(f, "R")] = b.dir_hashes(f, "R", ignored)
                ref1[(f, "R/d")] = b.dir_hashes(f, "R/d", ignored)
        if b.exists("R/z"):
            z = m.record("z")
            b.require(z is not None and all(truth(e.digest == b.Hempty(e.fmt)) for e in z.entries), "empty-dir-is-empty-input", "")
        # verify -dh -co prints the same values
        r = b.run("verify", root="R", dh=True, co=True)
        # (the directory hashes recorded before the pattern existed cover skip.tmp as well: the comparison may fail with exit 12,
        # the printed values are still the definition over the entries that are not ignored now)
        b.require(r.exc is None or (late and r.exit == 12), "verify-co-no-error", str(r))
        for f in fmts:
            c, s = ref1[(f, "R")]
            lines = [l for l in r.out if "calculated root hash" in l and (" %s: " % f) in l]
            b.require(len(lines) == 1, "co-root-line", "%s: %r" % (f, r.out))
            ds = b.digests_in(lines[0])
            b.require(len(ds) == 2 and truth(ds[0] == c) and truth(ds[1] == s), "co-root-values", f)
            lines = [l for l in r.out if "calculated directory hash for d " in l and (" %s: " % f) in l]
            b.require(len(lines) == 1, "co-dir-line", "%s: %r" % (f, r.out))
            c, s = ref1[(f, "R/d")]
            ds = b.digests_in(lines[0])
            b.require(len(ds) == 2 and truth(ds[0] == c) and truth(ds[1] == s), "co-dir-values", f)
        # second evaluation after an in-place rename and/or a content change
        mut = sym.choose("mutation", ["rename-file-before", "rename-file-after", "rename-dir", "edit", "none"])
        if mut == "rename-file-before":
            b.rename("R/d/f3.txt", "R/d/a3.txt")
        elif mut == "rename-file-after":
            b.rename("R/d/f3.txt", "R/d/z3.txt")
        elif mut == "rename-dir":
            b.rename("R/d", "R/g")
        elif mut == "edit":
            b.alter("R/d/f3.txt", sym.choose("newcid", [3, 5, 4]))
        r = b.run("create", root="R", h=hs, i=pats)
        m2 = b.manifests("R")[-1]
        check_dirhashes(b, m2, "R", fmts, ignored, "gen2 after %s" % mut)
        if [f for f in ["sha1", "md5"] if f not in fmts] and sym.flag("third_generation_adds_a_format"):
            extra = [f for f in ["sha1", "md5"] if f not in fmts][0]
            r = b.run("create", root="R", h=hs + [extra], i=pats)
            check_dirhashes(b, b.manifests("R")[-1], "R", fmts + [extra], ignored, "gen3 (format %s added) after %s" % (extra, mut))
        # corollaries of the definition (checked on the recorded values; not comparable when the ignore patterns changed in between)
        # (... or when a pattern that names a path stops matching because the directory was renamed)
        for f in ([] if late or (deep == "d/e/deep.bin" and mut == "rename-dir") else fmts):
            c1, s1 = [(e.digest, e.structure) for e in m.roothash if e.fmt == f][0]
            c2, s2 = [(e.digest, e.structure) for e in m2.roothash if e.fmt == f][0]
            if mut.startswith("rename"):
                b.require(truth(c1 == c2), "rename-keeps-content-hash", "%s %s" % (mut, f))
                b.require(not truth(s1 == s2), "rename-changes-structure-hash", "%s %s" % (mut, f))
            if mut == "edit":
                changed = not truth(b.H(f, "R/d/f3.txt") == b.Hcid(f, 3, 5))
                b.require(truth(c1 == c2) == (not changed), "edit-changes-content-hash", f)
    return fn


def _harnesses(tier):
    out = ["trees deeper than 2-3 levels", "nested histories deeper than one level (C08)"]
    return [
        Harness("c07-order", order_scenario(tier), frontier=4, budget_s=2400, backend={"symbolic_order": True},
                real_opts={"content_seeds": 48},
                what="create on root/{f1,f2?,d/{f3,f4},z/?}: recorded directory/root hashes = definition; digests are free values with "
                     "SYMBOLIC ORDER (the solver picks the order that exposes a missing or wrong sort)",
                bounds={"tree": "root/{f1,f2?,d/{f3,f4(content may equal f3)},z/?}",
                        "format": "md5|c4 (quick), each of the six (thorough), one per run"}, outside=out),
    ] + ([Harness("c07-order-deep", order_scenario(tier, deep=True), frontier=4, budget_s=2400, backend={"symbolic_order": True},
                  real_opts={"content_seeds": 48}, what="the same with a third directory level (d/e/{f5,f6}), md5, symbolic digest order",
                  bounds={"tree": "root/{f1,d/{f3,f4,e/{f5,f6}}}", "format": "md5"}, outside=out)] if tier != "quick" else []) + [
        Harness("c07-cmds", scenario(tier), frontier=5, budget_s=2400, real_opts={"content_seeds": 12},
                what="create, verify -dh -co, in-place rename / edit, second create: recorded and printed values = definition over "
                     "exactly the non-ignored entries; rename keeps content hash and changes structure hash; edit changes content hash",
                bounds={"tree": "root/{f1,f2?,d/{f3,f4,skip.tmp?},z/?}", "formats": fsets_desc(tier), "digest order": "creation order (order-sensitivity is c07-order's job)",
                        "mutations": "rename file to a name sorting before/after, rename directory, edit one file (cid' symbolic), none"},
                outside=out),
    ]


def fsets_desc(tier):
    return "md5|c4|xxh64+sha1 (-h order symbolic)" if tier == "quick" else "each single format, md5+c4, all six (-h order symbolic)"


def harnesses(tier):
    from . import tour
    return list(_harnesses(tier)) + tour.harnesses(tier, "C07")
