"""C11 - Every file the tool writes is valid against the published schemas."""
import posixpath
from ..runner import Harness
from ..pse import truth
from .. import pse
from . import common as cm

CLI6 = cm.FMT6


def validate_everything(b, tag):
    files = b.xml_files("")
    b.require(len(files) > 0 or tag == "sf-folder-empty", "something-written", tag)
    for f in files:
        errs = b.validate_xml(f)
        b.require(not errs, "schema-valid", "%s: %s invalid: %s" % (tag, f, "; ".join(errs)[:300]))


def corner_cases(tier):
    def fn(b, sym):
        case = sym.choose("case", ["empty-root", "only-empty-dirs", "sf-below-nested", "sf-folder-empty", "exit-10", "exit-11", "new-files",
                                   "n-flag", "renames", "flatten", "flatten-failed", "creator", "formats", "nested-n", "sf-then-folder", "special-names", "format-history-order", "sf-overlapping", "nested-folder-rename"])
        b.note(case)
        if case == "empty-root":
            b.mkdir("R")
            r = b.run("create", root="R", h=["md5"], n=sym.flag("n"))
        elif case == "only-empty-dirs":
            b.mkdir("R/a/b")
            b.mkdir("R/c")
            r = b.run("create", root="R", h=["c4"], n=sym.flag("n"))
        elif case == "sf-below-nested":
            b.mkfile("R/s.txt", 1)
            b.mkfile("R/A/AA/aa.txt", 2)
            r = b.run("create", root=sym.choose("child", ["R/A/AA", "R/A"]), h=["md5"])
            if sym.flag("parent_exists"):
                r = b.run("create", root="R", h=["md5"])
            r = b.run("create", root="R", h=["xxh64"], sf=["R/A/AA/aa.txt"])
        elif case == "sf-folder-empty":
            b.mkfile("R/s.txt", 1)
            b.mkdir("R/empty")
            r = b.run("create", root="R", h=["md5"], sf=["R/empty"])
        elif case in ("exit-10", "exit-11", "new-files"):
            b.mkfile("R/a.txt", 1)
            b.mkfile("R/d/b.txt", 2)
            r = b.run("create", root="R", h=["md5"])
            if case == "exit-10":
                b.delete("R/d/b.txt")
            elif case == "exit-11":
                b.alter("R/a.txt", 9)
            else:
                b.mkfile("R/d/new.txt", 3)
            r = b.run("create", root="R", h=sym.choose("fmts2", [["md5"], ["sha1"], ["md5", "c4"]]))
            b.require(r.exit == {"exit-10": 10, "exit-11": 11, "new-files": 0}[case], "expected-exit", "%s: %s" % (case, r))
        elif case == "n-flag":
            b.mkfile("R/a.txt", 1)
            b.mkfile("R/d/b.txt", 2)
            b.mkdir("R/z")
            r = b.run("create", root="R", h=["md5", "xxh3"], n=True)
            r = b.run("create", root="R", h=["md5"], n=sym.flag("second_n"))
        elif case == "renames":
            b.mkfile("R/a.txt", 1)
            b.mkfile("R/d/b.txt", 2)
            r = b.run("create", root="R", h=["md5"])
            if sym.flag("second_generation_before_rename"):
                r = b.run("create", root="R", h=["md5", "sha1"])
            b.rename("R/a.txt", "R/d/a renamed.txt")
            if sym.flag("rename_dir"):
                b.rename("R/d", "R/e")
            r = b.run("create", root="R", h=["md5"], dr=True)
            b.require(r.exit in (0, 10), "no-internal-error", "create -dr: %s" % r)  # 10: a renamed directory is reported as missing (outside C17)
            if sym.flag("then_flatten"):
                r = b.run("flatten", root="R", dest="OUT")
                b.require(r.exit == 0 and r.exc is None, "flatten-exit-0", "after renames: %s" % r)
        elif case in ("flatten", "flatten-failed"):
            b.mkfile("R/a.txt", 1)
            b.mkfile("R/d/b.txt", 2)
            r = b.run("create", root="R", h=["md5"])
            if case == "flatten-failed":
                b.alter("R/a.txt", 9)
                r = b.run("create", root="R", h=["md5", "c4"])
            else:
                r = b.run("create", root="R", h=["sha1"], n=sym.flag("n"))
            r = b.run("flatten", root="R", dest="OUT", author_name=sym.choose("author", [None, "A & B"]), author_email=sym.choose("email", [None, "x@y.zz"]))
            b.require(r.exit == 0, "flatten-exit-0", str(r))
        elif case == "creator":
            b.mkfile("R/a.txt", 1)
            kw = {}
            for k, v in (("author_name", "Jane Doe"), ("author_email", "jane@example.org"), ("author_phone", "+1 555"), ("author_role", "DIT"),
                         ("location", "Set <7>"), ("comment", "a & b")):
                if sym.flag("opt_" + k):
                    kw[k] = v
            r = b.run("create", root="R", h=["md5"], **kw)
        elif case == "formats":
            b.mkfile("R/a.txt", 1)
            b.mkfile("R/d/b.txt", 2)
            sel = [f for f in CLI6 if sym.flag("h_" + f)]
            if not sel:
                sym.assume(False)
            hs = sel[::-1] if sym.flag("reverse") else sel
            if sym.flag("repeat_first"):
                hs = hs + [hs[0]]
            r = b.run("create", root="R", h=hs)
        elif case == "nested-n":
            b.mkfile("R/s.txt", 1)
            b.mkfile("R/A/a.txt", 2)
            r = b.run("create", root="R/A", h=["md5"], n=sym.flag("child_n"))
            r = b.run("create", root="R", h=["c4"], n=sym.flag("root_n"))
        elif case == "nested-folder-rename":
            # a stack of three histories; the folder of the innermost (or of the middle) one is renamed; create -dr from the top
            b.mkfile("R/s.txt", 1)
            b.mkfile("R/A/a.txt", 2)
            b.mkfile("R/A/B/b.txt", 3)
            for hr in ("R/A/B", "R/A", "R"):
                r = b.run("create", root=hr, h=["md5"])
            which = sym.choose("renamed_folder", ["R/A/B", "R/A"])
            b.rename(which, which + "2")
            r = b.run("create", root="R", h=["md5"], dr=True, n=sym.flag("n"))
            b.require(r.exc is None or r.exit >= 10 or r.exit == 1, "no-internal-error", "create -dr after renaming %s: %s" % (which, r))
        elif case == "sf-overlapping":
            # arguments that reach the same file more than once: given twice, given and inside a given folder, spelled two ways
            b.mkfile("R/a.txt", 1)
            b.mkfile("R/d/b.txt", 2)
            sel = sym.choose("selection", [["R/a.txt", "R/a.txt"], ["R/d", "R/d/b.txt"], ["R/d/b.txt", "R/d"], ["R/d/b.txt", "R/d/../d/b.txt"]])
            if sym.flag("prior_generation"):
                r = b.run("create", root="R", h=["md5"])
            r = b.run("create", root="R", h=sym.choose("fmts", [["xxh64"], ["md5", "c4"]]), sf=sel)
            b.require(r.exit == 0 and r.exc is None, "no-internal-error", "create -sf %s: %s" % (sel, r))
        elif case == "sf-then-folder":
            b.mkfile("R/a.txt", 1)
            b.mkfile("R/d/b.txt", 2)
            r = b.run("create", root="R", h=["md5"], sf=["R/a.txt"])
            r = b.run("create", root="R", h=["md5", "sha1"])
        elif case == "format-history-order":
            b.mkfile("R/a.txt", 1)
            b.mkfile("R/d/b.txt", 2)
            order = sym.choose("introduced", [["xxh64", "md5"], ["xxh64", "c4"], ["sha1", "md5", "c4"], ["xxh3", "xxh128"]])
            for f in order:
                r = b.run("create", root="R", h=[f])
            r = b.run("create", root="R", h=order)
            if sym.flag("then_flatten"):
                r = b.run("flatten", root="R", dest="OUT")
        elif case == "special-names":
            # folder and file names with XML-special characters, several generations (earlier chain entries are rewritten), flatten twice
            root = "Cam A&B <1>"
            b.mkfile(root + "/a&b.txt", 1)
            b.mkfile(root + "/sub <x>/c'd\".txt", 2)
            nested = sym.flag("nested")
            if nested:
                r = b.run("create", root=root + "/sub <x>", h=["md5"])
            for g in range(3):
                r = b.run("create", root=root, h=["md5"])
                b.require(r.exit == 0 and r.exc is None, "no-internal-error", "special-names gen %d: %s" % (g, r))
            for g in range(2):
                r = b.run("flatten", root=root, dest="OUT & <2>")
                b.require(r.exit == 0 and r.exc is None, "no-internal-error", "special-names flatten %d: %s" % (g, r))
        b.require(r.exc is None or r.exit in (10, 11), "no-internal-error", "%s: %s" % (case, r))
        validate_everything(b, case)
    return fn


def selfcheck(sym):
    """xsdmini (the schema model) agrees with lxml's validator on the repo's example files and ~1200 mutated variants"""
    from .. import xsddiff
    n, dis = xsddiff.run()
    pse.require(n > 500, "xsdmini-differential-cases", str(n))
    pse.require(not dis, "xsdmini-agrees-with-lxml", str(dis[:3]))
    if sym.symbolic:
        pse.truth(sym.int("dummy", 0, 1) == 0)


LEVEL_NOTE = ("XSD validity is decided in the model by xsdmini, a content-model/datatype checker compiled at run time from /repo/xsd/*.xsd; "
              "it is differential-tested against lxml's validator on every run (harness c11-xsdmini) and every 'invalid' verdict is confirmed "
              "by lxml in the real replay before it is reported.")


def _harnesses(tier):
    return [
        Harness("c11-corners", corner_cases(tier), frontier=5, budget_s=2400, conformance=8,
                what="17 scenario families (empty root, only empty dirs, -sf below a nested history, -sf on an empty folder, runs exiting 10/11, "
                     "new files, -n, renames with -dr, flatten incl. failed entries, all 63 creator-option subsets, all 63 format subsets x order x "
                     "repeated -h, nested -n, -sf then folder): every written *.mhl / chain / collection validated",
                bounds={"cases": 17, "formats": "all non-empty subsets of the six, either order, optional repeated -h"},
                outside=["overlapping -sf selections (same file sealed twice in one run)", "syntactically invalid e-mail addresses",
                         "equivalence of xsdmini and libxml2 beyond the constructs the two XSDs use (checked differentially, not proved)"]),
        Harness("c11-xsdmini", selfcheck, mode="unit", frontier=1, budget_s=600, twin_paths=1, conformance=0, real=True,
                what="differential test of the schema model against lxml on the repo's example manifests and mutated variants",
                bounds={}, outside=[]),
    ]


def harnesses(tier):
    from . import tour
    return list(_harnesses(tier)) + tour.harnesses(tier, "C11")
