"""Shared scenario helpers: universes, expected record sets, output scanning."""
import posixpath
import re

FMT6 = ["c4", "md5", "sha1", "xxh128", "xxh3", "xxh64"]
DEFAULT_IGNORES = [".DS_Store", "ascmhl", "ascmhl/"]


def rel_to(path, root):
    return posixpath.relpath(path, root)


def under(path, root):
    return path == root or path.startswith(root + "/")


def make_ignored(patterns, root):
    """oracle for ignore patterns: gitwildmatch semantics on the path RELATIVE to the traversal root
    (pathspec is a third-party library, not ascmhl code)"""
    import pathspec
    spec = pathspec.PathSpec.from_lines("gitwildmatch", list(patterns))

    def ignored(rel, is_dir=False):
        r = rel_to(rel, root)
        if r == ".":
            return False
        # a path is excluded if it or one of its ancestors is matched (matching as the tool calls it: no trailing slash,
        # so a directory pattern "d/" excludes everything below d but not the directory entry d itself)
        parts = r.split("/")
        for i in range(1, len(parts) + 1):
            if spec.match_file("/".join(parts[:i])):
                return True
        return False

    return ignored


class Tree:
    """concrete names, symbolic presence / contents; builds itself on a backend"""

    def __init__(self, b):
        self.b = b
        self.files = {}  # rel -> cid
        self.dirs = set()

    def file(self, rel, cid, size=5, mtime=None):
        kw = {} if mtime is None else {"mtime": mtime}
        self.b.mkfile(rel, cid, size, **kw)
        self.files[rel] = cid
        d = posixpath.dirname(rel)
        while d and d not in self.dirs:
            self.dirs.add(d)
            d = posixpath.dirname(d)

    def dir(self, rel):
        self.b.mkdir(rel)
        d = rel
        while d and d not in self.dirs:
            self.dirs.add(d)
            d = posixpath.dirname(d)


def history_roots(b, root):
    """all directories at or below root that contain an ascmhl folder"""
    out = []
    for d in [root] + b.walk_dirs(root):
        if "ascmhl" in d.split("/"):
            continue
        a = posixpath.join(d, "ascmhl")
        if b.exists(a) and b.isdir(a):
            out.append(d)
    return sorted(set(out))


def owner_history(path, roots, top):
    """deepest history root (component-wise ancestor) that contains path; a history root itself belongs to itself"""
    best = top
    for r in roots:
        if under(path, r) and len(r) > len(best):
            best = r
    return best


def expected_records(b, root, roots=None, ignored=None, with_dirs=True):
    """history root -> {relative path: 'file'|'dir'} expected in a folder-mode generation of `root`"""
    roots = roots if roots is not None else [root]
    ignored = ignored or make_ignored(DEFAULT_IGNORES, root)
    exp = {r: {} for r in roots}
    exp.setdefault(root, {})

    def visit(d):
        for name in b.listdir(d):
            child = posixpath.join(d, name)
            is_dir = b.isdir(child)
            if ignored(child, is_dir):
                continue
            if is_dir:
                visit(child)
                if with_dirs:
                    own = owner_history(child, roots, root)
                    if child == own:
                        # a nested root appears as directory entry in its parent history
                        parent = owner_history(posixpath.dirname(child), roots, root)
                        exp[parent][rel_to(child, parent)] = "dir"
                    else:
                        exp[own][rel_to(child, own)] = "dir"
            else:
                own = owner_history(child, roots, root)
                exp[own][rel_to(child, own)] = "file"

    visit(root)
    return exp


def lines_with(res, needle):
    return [l for l in res.out + res.err if needle in l]


def names_path(line, path):
    """does the output line name exactly this path (delimited by whitespace / line ends)"""
    return re.search(r"(^|\s)" + re.escape(path) + r"(\s|$)", line) is not None


def check_path_syntax(b, path, assert_prefix="path"):
    b.require(isinstance(path, str) and len(path) > 0, assert_prefix + "-nonempty", repr(path))
    b.require(not path.startswith("/"), assert_prefix + "-not-absolute", path)
    b.require(".." not in path.split("/"), assert_prefix + "-no-dotdot", path)
    b.require("\\" not in path, assert_prefix + "-posix", path)
