"""C03 - Verification reports every discrepancy and never a false one."""
import posixpath
from ..runner import Harness
from ..pse import truth
from . import common as cm

FORMATSETS = [["md5"], ["c4", "xxh64"], ["xxh128"], ["sha1", "xxh3"]]


def build_u1(b, sym, flags):
    t = cm.Tree(b)
    t.file("R/a.txt", 1)
    t.file("R/b c.txt", 2, size=0 if flags.get("empty_b") else 5)
    t.file("R/d/ü.txt", 3)
    t.file("R/d/Cafe\u0301.mov", 6)  # decomposed (NFD) name as produced by macOS file systems
    if flags.get("deep", True):
        t.file("R/d/e/x&y.txt", 4)
    if flags.get("emptydir", True):
        t.dir("R/z")
    if flags.get("junk"):
        t.file("R/d/t.tmp", 5)
    return t


def build_u2(b, sym):
    t = cm.Tree(b)
    t.file("R/s.txt", 1)
    t.file("R/A/a1.txt", 2)
    t.file("R/A/AA/aa1.txt", 3)
    t.file("R/AB/ab1.txt", 4)
    t.file("R/B/b1.txt", 5)
    return t


def scenario(variant, tier):
    def fn(b, sym):
        nested = variant == "nested"
        patterns = []
        if nested:
            t = build_u2(b, sym)
            t.file("R/B/shoot.log", 6)  # matches a pattern that only a nested history was sealed with
            b.mkfile("R/notes.tmp", 7)  # ignored by the root history's own pattern
            patterns = ["*.tmp"]
            # nested histories created first, bottom-up or not at the solver's choice
            order = sym.choose("child_order", [["R/A/AA", "R/AB"], ["R/AB", "R/A/AA"], ["R/A/AA", "R/A"]])
            child_pats = ["*.log"] if sym.flag("children_sealed_with_own_pattern") else []
            for c in order:
                r = b.run("create", root=c, h=["md5"], i=child_pats)
                b.require(r.exit == 0, "setup-create", "child %s: %s" % (c, r))
        else:
            junk = sym.flag("junk")
            t = build_u1(b, sym, dict(deep=sym.flag("deep"), emptydir=sym.flag("emptydir"), junk=junk,
                                      empty_b=sym.flag("empty_b")))
            if junk:
                patterns = ["*.tmp"]
        fs0 = sym.choose("fmt0", FORMATSETS[:2] if tier == "quick" else FORMATSETS[:3])
        r = b.run("create", root="R", h=fs0, i=patterns)
        b.require(r.exit == 0 and r.exc is None, "seal-exit-0", "%s" % r)
        if sym.flag("second_gen"):
            fs1 = sym.choose("fmt1", FORMATSETS[:2] if tier == "quick" else FORMATSETS[1:3])
            r = b.run("create", root="R", h=fs1)
            b.require(r.exit == 0 and r.exc is None, "unchanged-create-exit-0", "second generation: %s" % r)
        if nested and sym.flag("sf_into_child_before"):
            # a run that only adds a generation to a nested history (the parents get reference-only generations)
            r = b.run("create", root="R", h=fs0, sf=["R/A/AA/aa1.txt"])
            b.require(r.exit == 0 and r.exc is None, "unchanged-create-exit-0", "create -sf into a nested history: %s" % r)
        files = sorted(f for f in t.files if not f.endswith(".tmp"))
        dirs_empty = [d for d in t.dirs if d != "R" and not b.listdir(d)]
        kinds = ["none", "alter", "delete", "add", "touch"]
        if dirs_empty:
            kinds.append("rmdir")
        if patterns:
            kinds += ["ign-alter", "ign-delete", "ign-add"]
        if tier != "quick":
            kinds += ["alter+add", "delete+alter", "delete+add"]
        if nested:
            kinds.append("alter+add-same-relative-path")
        kind = sym.choose("mutation", kinds)
        altered, removed, added = [], [], []
        parts = kind.split("+")
        used = set()
        for pi, part in enumerate(parts):
            if part == "alter":
                f = sym.choose("alter_target%d" % pi, [x for x in files if x not in used])
                used.add(f)
                # equality pattern of the new content: fresh | equal to another file's content | unchanged
                other = [x for x in files if x != f][0]
                newcid = sym.choose("newcid%d" % pi, [9, t.files[other], t.files[f]])
                oldsize = b.size(f)
                grow = sym.flag("alter_size%d" % pi)
                changed = newcid != t.files[f]
                if changed:
                    b.alter(f, newcid, (oldsize + 3) if grow else (oldsize if oldsize else 4))
                    altered.append(f)
                    b.note("alter %s" % f)
            elif part == "delete":
                f = sym.choose("delete_target%d" % pi, [x for x in files if x not in used])
                used.add(f)
                b.delete(f)
                removed.append(f)
                b.note("delete %s" % f)
            elif part == "rmdir":
                d = sym.choose("rmdir_target", sorted(dirs_empty))
                b.delete(d)
                removed.append(d)
                b.note("rmdir %s" % d)
            elif part == "add-same-relative-path":
                # a new file in a nested history whose history-relative path equals that of the altered file in another history
                rel_alt = cm.rel_to(altered[0], cm.owner_history(altered[0], cm.history_roots(b, "R") + ["R"], "R")) if altered else "s.txt"
                for hr in cm.history_roots(b, "R"):
                    f = posixpath.join(hr, rel_alt)
                    if not b.exists(f):
                        b.mkfile(f, 78)
                        added.append(f)
                        b.note("add %s" % f)
            elif part == "add":
                where = sym.choose("add_dir%d" % pi, sorted(d for d in t.dirs if b.exists(d)))
                f = posixpath.join(where, "new file.bin")
                b.mkfile(f, 77)
                added.append(f)
                b.note("add %s" % f)
            elif part == "touch":
                f = sym.choose("touch_target", files)
                b.touch(f, 1600000000)
                b.note("touch %s" % f)
            elif part == "ign-alter":
                b.alter("R/notes.tmp" if nested else "R/d/t.tmp", 55)
            elif part == "ign-delete":
                b.delete("R/notes.tmp" if nested else "R/d/t.tmp")
            elif part == "ign-add":
                b.mkfile("R/z2.tmp", 56)
        rel = lambda p: posixpath.relpath(p, "R")
        for cmd in ("verify", "diff", "create"):
            if cmd == "create":
                r = b.run("create", root="R", h=fs0)
            else:
                r = b.run(cmd, root="R")
            ctx = "%s after %s: exit %s exc %s | %s" % (cmd, kind, r.exit, r.exc, "; ".join(getattr(b, "notes", [])))
            b.require(r.exc is None or r.exit in (10, 11, 21), "no-internal-error", ctx)
            # codes of the discrepancies that are present; with several present the statement leaves the precedence to the tool
            present = set()
            if altered and cmd in ("verify", "create"):
                present.add(11)
            if removed:
                present.add(10)
            if added and cmd in ("verify", "diff"):
                present.add(21)
            if not present:
                present = {0}
            b.require(r.exit in present, "exit-code", "expected %s: %s" % (sorted(present), ctx))
            # every affected path is named, no unaffected path is
            mism = cm.lines_with(r, "hash mismatch")
            newl = cm.lines_with(r, "found new file")
            text = r.out + r.err
            miss = []
            for i, l in enumerate(text):
                if "missing file(s)" in l:
                    j = i + 1
                    while j < len(text) and text[j].startswith("  "):
                        miss.append(text[j])
                        j += 1
            if cmd in ("verify", "create"):
                for f in altered:
                    b.require(any(cm.names_path(l, rel(f)) for l in mism), "altered-path-named", "%s not in %r | %s" % (rel(f), mism, ctx))
            for f in removed:
                b.require(any(cm.names_path(l, rel(f)) for l in miss), "missing-path-named", "%s not in %r | %s" % (rel(f), miss, ctx))
            if cmd in ("verify", "diff"):
                for f in added:
                    b.require(any(cm.names_path(l, rel(f)) for l in newl), "new-path-named", "%s not in %r | %s" % (rel(f), newl, ctx))
            for f in sorted(t.files) + added:
                if f not in altered:
                    b.require(not any(cm.names_path(l, rel(f)) for l in mism), "false-mismatch", "%s | %s" % (rel(f), ctx))
                if f not in removed:
                    b.require(not any(cm.names_path(l, rel(f)) for l in miss), "false-missing", "%s | %s" % (rel(f), ctx))
                if f not in added or cmd == "create":
                    b.require(not any(cm.names_path(l, rel(f)) for l in newl), "false-new", "%s | %s" % (rel(f), ctx))
    return fn


def nofiles(b, sym):
    """sealed tree without any file (only directories); then the only file deleted"""
    if sym.flag("has_file"):
        b.mkfile("R/only.txt", 1)
        r = b.run("create", root="R", h=["md5"])
        b.require(r.exit == 0, "seal-exit-0", str(r))
        b.delete("R/only.txt")
        for cmd in ("verify", "diff", "create"):
            r = b.run(cmd, root="R") if cmd != "create" else b.run("create", root="R", h=["md5"])
            b.require(r.exit == 10, "exit-code", "only file deleted: %s exits %s (%s), expected 10" % (cmd, r.exit, r.exc))
    else:
        b.mkdir("R/z")
        if sym.flag("subdir"):
            b.mkdir("R/y/yy")
        r = b.run("create", root="R", h=["md5"])
        b.require(r.exit == 0, "seal-exit-0", str(r))
        for cmd in ("verify", "diff", "create"):
            r = b.run(cmd, root="R") if cmd != "create" else b.run("create", root="R", h=["md5"])
            b.require(r.exit == 0, "exit-code", "unchanged tree without files: %s exits %s (%s), expected 0" % (cmd, r.exit, r.exc))


def _harnesses(tier):
    out = ["histories with rename records (C17)", "new empty directories", "symlinks", "more than two generations"]
    return [
        Harness("c03-u1", scenario("u1", tier), frontier=5, budget_s=1500,
                what="seal U1 (1-2 generations, format sets, optional *.tmp ignore), one mutation (thorough: pairs), then verify, diff, create",
                bounds={"tree": "R/{a.txt,'b c.txt'(empty or not),d/{ü.txt,e/{x&y.txt}?,t.tmp?},z/?}", "generations": "1-2",
                        "mutations": "none|alter(fresh / another file's / same content; same or different size)|delete|rmdir|add|touch|ignored alter/delete/add" +
                                     ("" if tier == "quick" else "|pairs alter+add, delete+alter, delete+add")},
                outside=out),
        Harness("c03-nested", scenario("nested", tier), frontier=5, budget_s=1500,
                what="same over U2 with nested histories at A/AA + AB or A (created in a symbolic order)",
                bounds={"tree": "R/{s.txt,A/{a1.txt,AA/{aa1.txt}},AB/{ab1.txt},B/{b1.txt}}", "child histories": "A/AA+AB | AB+A/AA | A/AA+A"},
                outside=out),
        Harness("c03-nofiles", nofiles, frontier=2, budget_s=300, what="trees without any file / only file deleted",
                bounds={"tree": "R/z/ (+R/y/yy/) or R/only.txt"}, outside=[]),
    ]


def harnesses(tier):
    from . import tour
    return list(_harnesses(tier)) + tour.harnesses(tier, "C03")
