"""C09 - Directory-hash verification detects any change anywhere in the tree."""
import posixpath
from ..runner import Harness
from ..pse import truth
from . import common as cm

FS = [["md5"], ["c4"], ["xxh64", "sha1"]]


def scenario(tier):
    def fn(b, sym):
        layout = sym.choose("layout", ["flat", "u1", "nested"])
        if layout == "flat":
            files = {"R/a.txt": 1, "R/b.txt": 2, "R/Cafe\u0301.mov": 5}  # (the last name in decomposed spelling)
            dirs = []
        elif layout == "u1":
            files = {"R/a.txt": 1, "R/b c.txt": 2, "R/d/ü.txt": 3, "R/d/e/x&y.txt": 4}
            dirs = ["R/z"]
        else:
            files = {"R/s.txt": 1, "R/A/a1.txt": 2, "R/A/AA/aa1.txt": 3, "R/AB/ab1.txt": 4}
            dirs = []
        for f, c in files.items():
            b.mkfile(f, c)
        for d in dirs:
            b.mkdir(d)
        if layout == "nested":
            cf = sym.choose("child_format", [["md5"], ["xxh64"]])
            child = sym.choose("child_root", ["R/A/AA", "R/A"])
            r = b.run("create", root=child, h=cf)
            b.require(r.exit == 0, "setup-create", str(r))
        f1 = sym.choose("fmt1", FS)
        gens = sym.choose("generations", [1, 2] if tier == "quick" else [1, 2, 3])
        nflag = sym.choose("n_generation", [0, 1, 2]) if gens >= 2 else 0  # which generation (if any) is written with -n
        r = b.run("create", root="R", h=f1, n=(nflag == 1))
        b.require(r.exit == 0 and r.exc is None, "setup-create", str(r))
        if gens >= 2:
            f2 = sym.choose("fmt2", FS)
            r = b.run("create", root="R", h=f2, n=(nflag == 2))
            b.require(r.exit == 0 and r.exc is None, "setup-create", str(r))
        if gens == 3:
            r = b.run("create", root="R", h=sym.choose("fmt3", FS[:2]), sf=[sorted(files)[0]] if sym.flag("third_is_sf") else ())
            b.require(r.exit == 0 and r.exc is None, "setup-create", str(r))
        # how the root is spelled on the command line (shell completion appends a slash; `.` from inside the folder)
        from .c13 import root_argument
        spelling = sym.choose("root_spelling", ["plain", "trailing-slash", "dot"])
        rootarg = root_argument(spelling)
        r = b.run("verify", dh=True, **rootarg)
        b.require(r.exit == 0 and r.exc is None, "unchanged-exit-0", "%s layout=%s root spelled %s" % (r, layout, spelling))
        kind = sym.choose("mutation", ["alter", "rename", "add", "remove"])
        fl = sorted(files)
        changed = True
        if kind == "alter":
            f = sym.choose("target", fl)
            # equality pattern of the new content: unchanged | fresh | equal to another file's content
            newcid = sym.choose("newcid", [files[f], 8, files[fl[0]] if f != fl[0] else files[fl[1]]])
            changed = newcid != files[f]
            b.alter(f, newcid)
            what = "alter %s" % f
        elif kind == "rename":
            f = sym.choose("target", fl)
            import unicodedata
            nfc = unicodedata.normalize("NFC", f)
            if nfc != f and sym.flag("rename_to_composed_spelling"):
                b.rename(f, nfc)  # another name for the file system, the "same" name for a reader
                what = "rename %s to its composed spelling" % f
            else:
                b.rename(f, posixpath.join(posixpath.dirname(f), "renamed.dat"))
                what = "rename %s" % f
        elif kind == "add":
            where = sym.choose("where", sorted(set(posixpath.dirname(f) for f in fl) | set(dirs)))
            if sym.flag("add_dir"):
                b.mkdir(posixpath.join(where, "newdir"))
                what = "add empty dir in %s" % where
            else:
                b.mkfile(posixpath.join(where, "new.bin"), 55)
                what = "add file in %s" % where
        else:
            cands = fl + dirs
            f = sym.choose("target", cands)
            b.delete(f)
            what = "remove %s" % f
        b.note(what)
        r = b.run("verify", dh=True, **rootarg)
        if changed:
            b.require(r.exit == 12 and r.exc == "VerificationDirectoriesFailedException", "change-detected",
                      "%s (layout %s, %d generation(s), -n generation %s, root spelled %s): exit %s exc %s" % (what, layout, gens, nflag, spelling, r.exit, r.exc))
        else:
            b.require(r.exit == 0 and r.exc is None, "unchanged-exit-0", "%s with identical content: %s" % (what, r))
    return fn


def harnesses(tier):
    return [Harness("c09-verify-dh", scenario(tier), frontier=6, budget_s=2400,
                    what="seal flat / U1 / nested tree (1-2 generations, format sets, one generation optionally -n, child history in another "
                         "format), one mutation at any node incl. root level, then verify -dh",
                    bounds={"layouts": "flat R/{a,b}; U1; nested R/{s,A/{a1,AA/{aa1}},AB/{ab1}} with child history at A/AA or A (md5|xxh64)",
                            "generations": "1-2 (quick) / 1-3 (thorough), at least one with directory hashes", "formats": FS,
                            "root spelling": "R | R/ | . (from inside)", "mutations": "alter (same / fresh / another file's content) | rename in place | add file/empty dir in any directory | remove any file / empty dir"},
                    outside=["histories in which no generation has directory hashes", "explicit -h / -ro / -co options",
                             "tree changes between generations (statement covers trees identical to every generation, or changed after all)"])]
