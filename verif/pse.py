"""pse: proxy-object symbolic execution over z3.

The harness function is an ordinary Python callable that runs *real* /repo code on proxy values
(SymInt / SymBool / token strings).  Every `bool(SymBool)` asks z3 which sides are feasible under the
current path condition; a depth-first search over those decisions re-runs the harness once per feasible
path (prefix replay).  A path that raises `Violation` yields a z3 model = concrete counterexample.

Verdict "exhausted" is only issued when the decision tree was fully explored with no `unknown` answer;
anything else is "inconclusive".  Nothing is concretised silently: __index__/__hash__/__int__/__format__
of a SymInt raise `Concretisation` (a BaseException so that no `except Exception` can swallow it).
"""
import sys
import time
import z3


class PseAbort(BaseException):
    """Base of the engine's control-flow exceptions (BaseException: repo code must not catch them)."""


class Violation(PseAbort):
    def __init__(self, assert_id, detail=""):
        super().__init__(assert_id, detail)
        self.assert_id, self.detail = assert_id, detail


class Concretisation(PseAbort):
    pass


class BoundExceeded(PseAbort):
    pass


class Infeasible(PseAbort):
    """assume() of something unsatisfiable: the path is dropped (counted, never a verdict)."""


class Cut(PseAbort):
    """frontier reached during the partitioning pre-pass"""


class HarnessError(PseAbort):
    """model / engine failure: never a verdict about the property (exit code 3)"""


class Engine:
    cur = None

    def __init__(self, prefix=None, frontier_depth=None, deadline=None, max_paths=None, timeout_ms=20000):
        self.solver = z3.Solver()
        self.solver.set("timeout", timeout_ms)
        self.prefix = list(prefix or [])  # list of bools: decisions fixed for this worker
        self.frontier_depth = frontier_depth
        self.deadline = deadline
        self.max_paths = max_paths
        self.stack = []  # [cond, taken, other_side_pending, two_sided]
        self.paths = 0
        self.queries = 0
        self.unknown = 0
        self.solver_s = 0.0
        self.decisions2 = 0  # two-sided decisions taken (sum over paths)
        self.forced = 0
        self.dropped = 0
        self.max_depth = 0
        self.violations = []  # dicts
        self.frontier = []
        self.nontrivial_paths = 0
        self.reach = {}  # assertion-site id -> number of paths that evaluated it
        self.samples = []
        self.status = None
        self.on_path_end = None

    # ------------------------------------------------------------------ solver
    def _check(self, *extra):
        t = time.time()
        self.queries += 1
        r = self.solver.check(*extra)
        self.solver_s += time.time() - t
        if r == z3.unknown:
            self.unknown += 1
            raise HarnessError("solver returned unknown: %s" % self.solver.reason_unknown())
        return r == z3.sat

    # ------------------------------------------------------------------ inputs
    def fresh_int(self, name, lo=None, hi=None):
        if name in self.decls:
            raise HarnessError("duplicate symbolic input %s" % name)
        v = z3.Int(name)
        self.decls[name] = v
        if lo is not None:
            self.solver.add(v >= lo)
        if hi is not None:
            self.solver.add(v <= hi)
        return SymInt(v)

    def fresh_bool(self, name):
        if name in self.decls:
            raise HarnessError("duplicate symbolic input %s" % name)
        v = z3.Bool(name)
        self.decls[name] = v
        return SymBool(v)

    def choose(self, name, options):
        """symbolic choice among a finite list; recorded as a named integer input"""
        options = list(options)
        if len(options) == 1:
            self.concrete_inputs[name] = 0
            return options[0]
        v = self.fresh_int(name, 0, len(options) - 1)
        for i in range(len(options) - 1):
            if self.branch(v.z == i):
                return options[i]
        return options[-1]

    def flag(self, name):
        return self.choose(name, [False, True])

    def assume(self, cond):
        z = _zb(cond)
        z = z3.simplify(z)
        if z3.is_true(z):
            return
        if z3.is_false(z) or not self._check(z):
            self.dropped += 1
            raise Infeasible()
        self.solver.add(z)

    def add(self, z):
        """add a background constraint (model axiom) without feasibility check"""
        self.solver.add(z)

    # ------------------------------------------------------------------ branching
    def branch(self, cond):
        cond = z3.simplify(cond)
        if z3.is_true(cond):
            return True
        if z3.is_false(cond):
            return False
        i = self.pos
        self.pos += 1
        if self.pos > self.max_depth:
            self.max_depth = self.pos
        if i < len(self.stack):
            ent = self.stack[i]
            if ent[0] is None:
                ent[0] = cond  # prefix handed over from the partitioning pass
            elif not ent[0].eq(cond):
                raise HarnessError("non-deterministic harness: decision %d differs on replay" % i)
            self.solver.add(cond if ent[1] else z3.Not(cond))
            if ent[3]:
                self.path_two_sided += 1
            return ent[1]
        can_t = self._check(cond)
        can_f = self._check(z3.Not(cond))
        if can_t and can_f:
            if self.frontier_depth is not None and self.path_two_sided >= self.frontier_depth:
                self.pos -= 1
                raise Cut()
            self.stack.append([cond, True, True, True])
            self.solver.add(cond)
            self.path_two_sided += 1
            return True
        if can_t:
            self.stack.append([cond, True, False, False])
            self.solver.add(cond)
            self.forced += 1
            return True
        if can_f:
            self.stack.append([cond, False, False, False])
            self.solver.add(z3.Not(cond))
            self.forced += 1
            return False
        raise HarnessError("infeasible path condition at decision %d" % i)

    # ------------------------------------------------------------------ exploration
    def model_values(self):
        if not self._check():
            raise HarnessError("path condition unsat at end of path")
        m = self.solver.model()
        out = dict(self.concrete_inputs)
        for k, v in self.decls.items():
            val = m.eval(v, model_completion=True)
            if z3.is_int_value(val):
                out[k] = val.as_long()
            elif z3.is_true(val) or z3.is_false(val):
                out[k] = bool(z3.is_true(val))
            elif z3.is_string_value(val):
                out[k] = val.as_string()
            else:
                out[k] = str(val)
        return out

    def explore(self, fn):
        """fn(engine) runs one path; raises Violation on property failure."""
        for b in self.prefix:
            self.stack.append([None, b[0], False, b[1]])
        while True:
            if self.deadline and time.time() > self.deadline:
                self.status = "inconclusive:budget"
                return self.status
            if self.max_paths and self.paths >= self.max_paths:
                self.status = "inconclusive:max_paths"
                return self.status
            self.solver.reset()
            self.pos = 0
            self.decls = {}
            self.concrete_inputs = {}
            self.path_two_sided = 0
            self.path_note = None
            self.soft = []
            Engine.cur = self
            cut = False
            try:
                try:
                    fn(self)
                finally:
                    if self.soft and not isinstance(sys.exc_info()[1], (Cut, Infeasible, HarnessError, Concretisation, BoundExceeded)):
                        vals = self.model_values()
                        for aid, det in self.soft:
                            self.violations.append({"assert": aid, "detail": det, "inputs": vals, "note": self.path_note})
            except Violation as v:
                vals = self.model_values()
                self.violations.append({"assert": v.assert_id, "detail": str(v.detail), "inputs": vals,
                                        "note": self.path_note})
            except Infeasible:
                cut = True  # dropped: not a path of the harness
            except Cut:
                cut = True
                self.frontier.append([(e[1], e[3]) for e in self.stack])
            finally:
                Engine.cur = None
            if not cut:
                self.paths += 1
                self.decisions2 += self.path_two_sided
                if self.path_two_sided > 0:
                    self.nontrivial_paths += 1
                if self.on_path_end:
                    self.on_path_end(self)
            # backtrack
            while self.stack and not self.stack[-1][2]:
                self.stack.pop()
            if not self.stack or len(self.stack) <= len(self.prefix):
                self.status = "exhausted"
                return self.status
            self.stack[-1][1] = not self.stack[-1][1]
            self.stack[-1][2] = False

    def stats(self):
        return dict(paths=self.paths, nontrivial_paths=self.nontrivial_paths, decisions_two_sided=self.decisions2,
                    forced=self.forced, queries=self.queries, unknown=self.unknown, solver_s=round(self.solver_s, 3),
                    dropped_infeasible=self.dropped, max_depth=self.max_depth, status=self.status)


def cur():
    e = Engine.cur
    if e is None:
        raise HarnessError("symbolic value used outside an exploration")
    return e


def _z(x):
    if isinstance(x, (SymInt, SymBool)):
        return x.z
    if isinstance(x, bool):
        return z3.BoolVal(x)
    if isinstance(x, int):
        return z3.IntVal(x)
    raise Concretisation("cannot lift %r" % type(x))


def _zb(x):
    if isinstance(x, SymBool):
        return x.z
    if isinstance(x, bool):
        return z3.BoolVal(x)
    if z3.is_expr(x):
        return x
    raise Concretisation("cannot lift %r to Bool" % type(x))


class SymBool:
    __slots__ = ("z",)

    def __init__(self, z):
        self.z = z

    def __bool__(self):
        return True if cur().branch(self.z) else False

    def __and__(self, o):
        return SymBool(z3.And(self.z, _zb(o)))

    __rand__ = __and__

    def __or__(self, o):
        return SymBool(z3.Or(self.z, _zb(o)))

    __ror__ = __or__

    def __invert__(self):
        return SymBool(z3.Not(self.z))

    def __eq__(self, o):
        if isinstance(o, (SymBool, bool)):
            return SymBool(self.z == _zb(o))
        return False

    def __ne__(self, o):
        if isinstance(o, (SymBool, bool)):
            return SymBool(self.z != _zb(o))
        return True

    def __hash__(self):
        raise Concretisation("hash(SymBool)")

    def __repr__(self):
        return "<SymBool %s>" % self.z


class DecStr(str):
    """str(SymInt): a token that still is a `str` (survives f-strings / attrib values / encode)"""

    def __new__(cls, sym):
        from . import tokens
        o = str.__new__(cls, tokens.new_key("DEC"))
        o.sym = sym
        tokens.register(o)
        return o


class SymInt:
    __slots__ = ("z",)

    def __init__(self, z):
        self.z = z

    def __add__(self, o):
        return SymInt(self.z + _z(o))

    __radd__ = __add__

    def __sub__(self, o):
        return SymInt(self.z - _z(o))

    def __rsub__(self, o):
        return SymInt(_z(o) - self.z)

    def __mul__(self, o):
        return SymInt(self.z * _z(o))

    __rmul__ = __mul__

    def __floordiv__(self, o):
        return SymInt(self.z / _z(o))

    def __rfloordiv__(self, o):
        return SymInt(_z(o) / self.z)

    def __mod__(self, o):
        return SymInt(self.z % _z(o))

    def __rmod__(self, o):
        return SymInt(_z(o) % self.z)

    def __divmod__(self, o):
        return (self // o, self % o)

    def __rdivmod__(self, o):
        return (SymInt(_z(o) / self.z), SymInt(_z(o) % self.z))

    def __pos__(self):
        return self

    def __abs__(self):
        return SymInt(z3.If(self.z >= 0, self.z, -self.z))

    def __truediv__(self, o):
        raise Concretisation("true division of SymInt (float)")

    __rtruediv__ = __truediv__

    def __neg__(self):
        return SymInt(-self.z)

    def __eq__(self, o):
        return SymBool(self.z == _z(o)) if isinstance(o, (int, SymInt)) and not isinstance(o, bool) else False

    def __ne__(self, o):
        return SymBool(self.z != _z(o)) if isinstance(o, (int, SymInt)) and not isinstance(o, bool) else True

    def __lt__(self, o):
        return SymBool(self.z < _z(o))

    def __le__(self, o):
        return SymBool(self.z <= _z(o))

    def __gt__(self, o):
        return SymBool(self.z > _z(o))

    def __ge__(self, o):
        return SymBool(self.z >= _z(o))

    def __bool__(self):
        return True if cur().branch(self.z != 0) else False

    def __hash__(self):
        raise Concretisation("hash(SymInt)")

    def __index__(self):
        raise Concretisation("index(SymInt)")

    def __int__(self):
        raise Concretisation("int(SymInt)")

    def __float__(self):
        raise Concretisation("float(SymInt)")

    def __format__(self, spec):
        if spec == "":
            return str(self)
        raise Concretisation("format(SymInt, %r)" % spec)

    def __str__(self):
        return DecStr(self)

    def __repr__(self):
        return "<SymInt %s>" % self.z


def truth(x):
    """force a Python bool out of a (possibly symbolic) condition; forks when both sides are feasible"""
    if isinstance(x, bool):
        return x
    return True if x else False


SOFT_REAL = []  # soft violations collected outside an exploration (real replays)


def require(cond, assert_id, detail="", soft=False):
    """assertion site: a feasible falsifying side ends the path with a Violation (soft: it is recorded and the path goes on,
    so that later assertions of the same scenario are still evaluated)"""
    e = Engine.cur
    if e is not None:
        e.reach[assert_id] = e.reach.get(assert_id, 0) + 1
    if not truth(cond):
        d = detail() if callable(detail) else detail
        if soft:
            (e.soft if e is not None else SOFT_REAL).append((assert_id, str(d)))
            return
        raise Violation(assert_id, d)
