#!/verif/.venv/bin/python
"""Regenerates MANIFEST.json from the table below (keeps it valid and in sync with the harness modules)."""
import json, os
HERE = os.path.dirname(os.path.abspath(__file__))
TITLES = {}
for l in open(os.path.join(HERE, "properties.jsonl")):
    d = json.loads(l); TITLES[d["id"]] = d["title"]

import sys, importlib
sys.path.insert(0, HERE)
NOTE = ("Trusted base: digest algorithms modelled as injective uninterpreted functions (collision-freeness), lxml / OS / clock "
        "replaced by the models listed under coverage.stubs of the evidence; click option parsing only exercised in real replays; "
        "bounds per harness are in the evidence (coverage.harnesses[*].bounds) and nothing is claimed outside them.")
TECH = "symbolic execution of the real Python code on proxy values (pse); z3 decides every branch; exhaustive DFS within stated bounds; counterexamples replayed on the real CLI"

def claim(pid):
    try:
        mod = importlib.import_module("verif.harness.%s" % pid.lower())
    except ModuleNotFoundError:
        return None
    hs = mod.harnesses("quick")
    text = ("Bounded symbolic model checking of the real /repo/ascmhl code (decision tree exhausted by z3, no unknown answers; "
            "every counterexample is replayed against the real CLI before it is reported). Harnesses: "
            + " | ".join("%s: %s" % (h.name, h.what) for h in hs))
    extra = getattr(mod, "LEVEL_NOTE", "")
    return text, NOTE + (" " + extra if extra else ""), getattr(mod, "TECHNIQUE", TECH)

CLAIMS = {}
for _l in open(os.path.join(HERE, "properties.jsonl")):
    _pid = json.loads(_l)["id"]
    _c = claim(_pid)
    if _c:
        CLAIMS[_pid] = _c
PENDING = "check not built yet in this revision (work in progress, see DESIGN.md section 3)"

def main():
    checks, na = [], []
    for pid in sorted(TITLES):
        if pid in CLAIMS and os.path.exists(os.path.join(HERE, "verif", "harness", pid.lower() + ".py")):
            text, note, tech = CLAIMS[pid]
            checks.append({
                "property_id": pid,
                "quick_cmd": "./check %s --tier quick" % pid,
                "thorough_cmd": "./check %s --tier thorough" % pid,
                "evidence_file": "evidence/%s.json" % pid,
                "replay_cmd_template": "./check %s --replay {path}" % pid,
                "engine": "pse",
                "level_claimed": {"category": "model_checking", "text": text, "design_ref": "DESIGN.md section 3, " + pid},
                "level_note": note,
                "technique": tech,
            })
        else:
            na.append({"property_id": pid, "reason": NA.get(pid, PENDING)})
    m = {
        "version": 1,
        "setup_cmd": "./setup.sh",
        "hooks": {"guard": "ASCMITC_MHL_VERIF", "enable": "no source hooks: models are injected as module globals at run time",
                  "baseline_off_cmd": "cd /repo && /venv/bin/python -m pytest -ra -q -p no:cacheprovider --timeout=900 --continue-on-collection-errors",
                  "source_commits": [], "add_only": True},
        "engines": [{"name": "pse", "path": "verif/pse.py", "serves_properties": [c["property_id"] for c in checks],
                     "kind_free_text": "proxy-object symbolic execution of the real Python code over z3 (bounded, exhaustive DFS with prefix replay, 16-way partitioned); environment models in verif/world.py, fakexml.py, clock.py; real-program replay in verif/replay.py"}],
        "checks": checks,
        "not_applicable": na,
        "notes": "Exit codes of ./check: 0 held, 1 VIOLATION (replayed on the real program), 2 inconclusive (budget/unknown), 3 harness error (model gap / counterexample did not reproduce). 2 and 3 never print VIOLATION.",
    }
    json.dump(m, open(os.path.join(HERE, "MANIFEST.json"), "w"), indent=1)
    print("MANIFEST.json: %d checks, %d not_applicable" % (len(checks), len(na)))

NA = {}
if __name__ == "__main__":
    main()
