#!/bin/bash
# Builds the overlay virtualenv used by every check (offline; wheels from /opt/veriftools/wheels).
set -e
cd "$(dirname "$0")"
V=.venv
if [ ! -x $V/bin/python ] || ! $V/bin/python -c "import z3, ascmhl, lxml, click" 2>/dev/null; then
  rm -rf $V
  /venv/bin/python -m venv $V
  SP=$($V/bin/python -c "import sysconfig; print(sysconfig.get_paths()['purelib'])")
  printf "import site; site.addsitedir('/venv/lib/python3.12/site-packages')\n" > $SP/_overlay.pth
  PIP_NO_INDEX=1 $V/bin/pip install -q --no-index --find-links /opt/veriftools/wheels z3-solver >/dev/null
  # second engine for the thorough tier (optional: checks still run without it)
  PIP_NO_INDEX=1 $V/bin/pip install -q --no-index --find-links /opt/veriftools/wheels crosshair-tool >/dev/null 2>&1 || true
fi
$V/bin/python -c "import z3, ascmhl, os; assert os.path.dirname(ascmhl.__file__) == '/repo/ascmhl', ascmhl.__file__; print('verif venv ok: z3', z3.get_version_string())"
