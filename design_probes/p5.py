import time, sys
import pse
import p4c as P
def setup(e):
    return [e.fresh_int(n, lo, hi) for n, lo, hi in [("m1",1,7),("m2",1,7),("m3",1,7),("v2",0,1),("v3",0,2)]]
def fn(m1,m2,m3,v2,v3):
    r = P.run(m1,m2,m3,v2,v3)
    if r != "": raise pse.Violation(r)
e = pse.Engine(); t=time.time()
print(e.explore(fn, setup), "paths", e.paths, "queries", e.queries, "solver_s", round(e.solver_time,2), "wall", round(time.time()-t,2))
