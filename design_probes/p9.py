import z3, time
N=88
d=[z3.Int(f"d{i}") for i in range(N)]; e=[z3.Int(f"e{i}") for i in range(N)]
s=z3.Solver()
for x in d+e: s.add(x>=0, x<58)
val=lambda v: z3.Sum([v[i]*(58**(N-1-i)) for i in range(N)])
# lex less
lex=z3.BoolVal(False)
for i in reversed(range(N)):
    lex=z3.Or(d[i]<e[i], z3.And(d[i]==e[i], lex))
s.add(lex, val(d)>=val(e))
t=time.time(); print(s.check(), time.time()-t)
