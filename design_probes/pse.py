"""Prototype proxy-object symbolic execution engine (DFS over decision tree, z3 feasibility checks)."""
import z3, time

class Violation(Exception): pass
class Concretization(Exception): pass

class Engine:
    cur = None
    def __init__(self):
        self.solver = z3.Solver()
        self.stack = []      # list of [cond, branch_taken(bool), other_pending(bool)]
        self.paths = 0; self.queries = 0; self.solver_time = 0.0
    def check(self, *extra):
        t = time.time(); self.queries += 1
        r = self.solver.check(*extra)
        self.solver_time += time.time() - t
        if r == z3.unknown: raise RuntimeError("solver unknown")
        return r == z3.sat
    def fresh_int(self, name, lo=None, hi=None):
        v = z3.Int(name)
        if name not in self.decls:
            self.decls[name] = v
            if lo is not None: self.assumes.append(v >= lo)
            if hi is not None: self.assumes.append(v <= hi)
            self.solver.add(*self.assumes[-2:]) if False else None
        return SymInt(v)
    def branch(self, cond):
        cond = z3.simplify(cond)
        if z3.is_true(cond): return True
        if z3.is_false(cond): return False
        i = self.pos
        if i < len(self.stack):
            c, taken, _ = self.stack[i]
            if not c.eq(cond): raise RuntimeError("nondeterministic replay")
            self.pos += 1
            self.solver.add(c if taken else z3.Not(c))
            return taken
        can_t = self.check(cond)
        can_f = self.check(z3.Not(cond))
        if can_t and can_f:
            self.stack.append([cond, True, True]); self.solver.add(cond); self.pos += 1; return True
        if can_t:
            self.stack.append([cond, True, False]); self.pos += 1; self.solver.add(cond); return True
        if can_f:
            self.stack.append([cond, False, False]); self.pos += 1; self.solver.add(z3.Not(cond)); return False
        raise RuntimeError("infeasible path")
    def explore(self, fn, setup_inputs):
        """fn(inputs) raises Violation(msg) on property failure"""
        while True:
            self.solver.reset(); self.pos = 0; self.decls = {}; self.assumes = []
            Engine.cur = self
            inputs = setup_inputs(self)
            self.solver.add(*self.assumes)
            try:
                fn(*inputs)
            except Violation as e:
                assert self.check()
                m = self.solver.model()
                return ("violation", str(e), {k: m.eval(v, model_completion=True) for k, v in self.decls.items()})
            self.paths += 1
            # backtrack
            while self.stack and not self.stack[-1][2]:
                self.stack.pop()
            if not self.stack:
                return ("exhausted", self.paths, None)
            self.stack[-1][1] = False; self.stack[-1][2] = False

def _z(x):
    return x.z if isinstance(x, (SymInt, SymBool)) else (z3.BoolVal(x) if isinstance(x, bool) else z3.IntVal(x))

class DecStr(str):
    pass

class SymBool:
    def __init__(self, z): self.z = z
    def __bool__(self): return Engine.cur.branch(self.z)
    def __and__(self, o): return SymBool(z3.And(self.z, _z(o)))
    def __or__(self, o): return SymBool(z3.Or(self.z, _z(o)))
    def __invert__(self): return SymBool(z3.Not(self.z))

class SymInt:
    def __init__(self, z): self.z = z
    def __add__(self, o): return SymInt(self.z + _z(o))
    __radd__ = __add__
    def __sub__(self, o): return SymInt(self.z - _z(o))
    def __rsub__(self, o): return SymInt(_z(o) - self.z)
    def __mul__(self, o): return SymInt(self.z * _z(o))
    __rmul__ = __mul__
    def __floordiv__(self, o): return SymInt(self.z / _z(o))
    def __mod__(self, o): return SymInt(self.z % _z(o))
    def __neg__(self): return SymInt(-self.z)
    def __eq__(self, o): return SymBool(self.z == _z(o)) if isinstance(o, (int, SymInt)) else False
    def __ne__(self, o): return SymBool(self.z != _z(o)) if isinstance(o, (int, SymInt)) else True
    def __lt__(self, o): return SymBool(self.z < _z(o))
    def __le__(self, o): return SymBool(self.z <= _z(o))
    def __gt__(self, o): return SymBool(self.z > _z(o))
    def __ge__(self, o): return SymBool(self.z >= _z(o))
    def __hash__(self): raise Concretization("hash of SymInt")
    def __index__(self): raise Concretization("index of SymInt")
    def __int__(self): raise Concretization("int of SymInt")
    def __str__(self):
        o = DecStr("\x00DEC\x00"); o.sym = self; return o
    __repr__ = lambda self: "<SymInt>"
    def __format__(self, spec): raise Concretization("format of SymInt")
