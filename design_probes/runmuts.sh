#!/bin/bash
# usage: runmuts.sh  -> applies each mutant to a scratch copy and runs the baseline tests
cd /tmp/probe/mt
python3 - <<'PY'
import importlib.util, os, shutil, subprocess, sys, concurrent.futures as cf
spec = importlib.util.spec_from_file_location("muts", "/tmp/probe/mt/muts.py"); m = importlib.util.module_from_spec(spec); spec.loader.exec_module(m)
def one(mu):
    mid, prop, f, old, new = mu
    d = f"/tmp/probe/mt/{mid}"
    shutil.rmtree(d, ignore_errors=True)
    shutil.copytree("/repo", d, ignore=shutil.ignore_patterns(".git"))
    p = os.path.join(d, "ascmhl", f); s = open(p).read()
    if s.count(old) != 1:
        shutil.rmtree(d); return mid, prop, f"PATCH-FAIL count={s.count(old)}"
    open(p, "w").write(s.replace(old, new))
    r = subprocess.run(["/venv/bin/python", "-m", "pytest", "-q", "-x", "-p", "no:cacheprovider", "--timeout=900"], cwd=d, env={**os.environ, "PYTHONPATH": d}, capture_output=True, text=True)
    tail = r.stdout.strip().splitlines()[-1] if r.stdout.strip() else r.stderr[-200:]
    chk = subprocess.run(["/venv/bin/python", "-c", "import ascmhl; print(ascmhl.__file__)"], cwd=d, env={**os.environ, "PYTHONPATH": d}, capture_output=True, text=True).stdout.strip()
    shutil.rmtree(d)
    return mid, prop, tail + "  [" + chk + "]"
with cf.ThreadPoolExecutor(8) as ex:
    for r in ex.map(one, m.M): print(*r, flush=True)
PY
