"""Probe C04: real seal_file_path + generator + _validate_new_hash_list on a symbolic 2-generation history of one file."""
from typing import List
import datetime
import ascmhl.commands as C
import ascmhl.history as Hi
import ascmhl.generator as G
import ascmhl.hashlist as HL
import ascmhl.logger as L

FMTS = ["c4", "md5", "sha1", "xxh128", "xxh3", "xxh64"]
ROOT = "/r"

VERS = []
class Dig:
    """digest token: (format, index of content version in side table)."""
    def __init__(self, fmt, k): self.fmt, self.k = fmt, k
    def __eq__(self, o): return isinstance(o, Dig) and self.fmt == o.fmt and (VERS[self.k] == VERS[o.k])
    def __ne__(self, o): return not self.__eq__(o)
    def __hash__(self): return 0
    def __format__(self, spec): return "<dig>"
    def __str__(self): return "<dig>"

def fmts_of(mask):
    out = []
    for f in FMTS[:3]:
        if mask % 2 == 1:
            out.append(f)
        mask = mask // 2
    return out

def run(m1: int, m2: int, m3: int, v2: int, v3: int):
    """
    pre: 1 <= m1 < 8 and 1 <= m2 < 8 and 1 <= m3 < 8
    pre: 0 <= v2 <= 1 and 0 <= v3 <= 2
    post: _ == ""
    """
    # only 3 formats: c4, md5, sha1 (bits 0..2)
    hist = Hi.MHLHistory(); hist.asc_mhl_path = ROOT + "/ascmhl"
    vers = [0, v2, v3]
    VERS[:] = vers
    masks = [m1, m2, m3]
    file_path = ROOT + "/a.txt"
    msgs = []
    saved = (C.multiple_format_hash_file, C.os, L.verbose, L.error, Hi.hashlist_xml_parser.write_hash_list)
    class FakeOS:
        class path:
            getsize = staticmethod(lambda p: 5)
            getmtime = staticmethod(lambda p: 0)
            isabs = staticmethod(lambda p: True)
    cur = [0]
    def fake_mfhf(path, formats):
        return {f: Dig(f, cur[0]) for f in formats}
    C.multiple_format_hash_file = fake_mfhf
    C.os = FakeOS
    L.verbose = lambda *a: None
    L.error = lambda *a: None
    written = []
    Hi.hashlist_xml_parser.write_hash_list = lambda hl, fp: written.append(hl)
    try:
        out = ""
        for g in range(3):
            cur[0] = g
            session = G.MHLGenerationCreationSession(hist)
            req = sorted(fmts_of(masks[g]))
            res = C.seal_file_path(hist, file_path, req, session)
            nh = session.new_hash_lists[hist]
            try:
                hist.write_new_generation(nh)
            except AssertionError as e:
                return "abort in gen %d" % (g + 1)
            # property: actions
            mh = nh.find_media_hash_for_path("a.txt")
            for e in mh.hash_entries:
                # earliest recorded digest of same format
                first = None
                for hl in hist.hash_lists[:-1]:
                    m = hl.find_media_hash_for_path("a.txt")
                    if m:
                        for x in m.hash_entries:
                            if x.hash_format == e.hash_format and first is None:
                                first = x
                if g == 0:
                    if e.action != "original": return "g1 not original"
                else:
                    if e.action == "original": return "original later"
                    if first is not None:
                        exp = "verified" if first.hash_string == e.hash_string else "failed"
                        if e.action != exp: return "wrong action"
        return out
    finally:
        C.multiple_format_hash_file, C.os, L.verbose, L.error, Hi.hashlist_xml_parser.write_hash_list = saved
