"""C07 probe: directory hashes vs reference definition with symbolic digest order."""
import time, z3, pse, world as W
import ascmhl.commands as C
from ascmhl import errors

def ref_hash(w, alg, items):
    return w.hm.digest(alg, items)

def scenario():
    w = W.World()
    for p, cid in (("/root/f1", 1), ("/root/f2", 2), ("/root/d/f3", 3), ("/root/d/f4", 4)):
        w.add_file(p, cid=cid, size=5)
    restore = W.install(w)
    try:
        kw = dict(root_path="/root", verbose=False, hash_format=("md5",), no_directory_hashes=False, detect_renaming=False,
                  single_file=(), ignore_list=(), ignore_spec_file=None, author_name=None, author_email=None,
                  author_phone=None, author_role=None, location=None, comment=None)
        C.create.callback(**kw)
        # read root hash from written manifest element trees directly
        mh = [p for p in w.nodes if p.endswith(".mhl")][0]
        toks = W.tokens_of(w.nodes[mh].content)
        root_content = None
        for k, el in toks:
            if k == "el" and el.tag == "processinfo":
                rh = [c for c in el.children if c.tag == "roothash"][0]
                root_content = rh.children[0].children[0].text
                root_structure = rh.children[1].children[0].text
        # reference definition (independent evaluator): sorted by digest value
        def fdig(cid): return w.hm.digest("md5", [1, cid])
        def sort_vals(vals):
            vals = list(vals)
            # insertion sort with symbolic comparisons
            out = []
            for v in vals:
                i = 0
                while i < len(out) and (out[i] < v): i += 1
                out.insert(i, v)
            return out
        def dirhash(children):   # children: list of (name, kind, content_dig, structure_dig)
            cs = sort_vals([c for _, _, c, _ in children])
            content = w.hm.digest("md5", [x for c in cs for x in (3, c.val)])
            ss = sort_vals([w.hm.digest("md5", [2, W.bytes_id(n.encode()), 3, (s if k == "d" else c).val]) for n, k, c, s in children])
            structure = w.hm.digest("md5", [x for s in ss for x in (3, s.val)])
            return content, structure
        dc, ds = dirhash([("f3", "f", fdig(3), None), ("f4", "f", fdig(4), None)])
        rc, rs = dirhash([("d", "d", dc, ds), ("f1", "f", fdig(1), None), ("f2", "f", fdig(2), None)])
        if root_content != rc: raise pse.Violation("root content hash != definition")
        if root_structure != rs: raise pse.Violation("root structure hash != definition")
    finally:
        restore()

e = pse.Engine(); t = time.time()
print(e.explore(scenario, lambda e: []), "paths", e.paths, "queries", e.queries, "solver_s", round(e.solver_time, 2), "wall", round(time.time() - t, 2))
