import os, shutil, tempfile, glob, time
from click.testing import CliRunner
import ascmhl.commands as C

def run(cmd, args):
    r = CliRunner().invoke(cmd, args)
    exc = repr(r.exception) if (r.exception and not isinstance(r.exception, SystemExit)) else None
    return r.exit_code, exc
def out(cmd, args):
    r = CliRunner().invoke(cmd, args); return r.exit_code, r.output
def fresh(): return tempfile.mkdtemp(prefix="mhlp_")
def w(p, s):
    os.makedirs(os.path.dirname(p), exist_ok=True); open(p, "w").write(s)

# trailing slash / relative invocation
d = fresh(); root = d + "/root"; w(root + "/a.txt", "a"); w(root + "/s/b.txt", "b")
print("slash create", run(C.create, [root + "/", "-h", "md5"]))
print("slash verify", run(C.verify, [root + "/"]))
print("plain verify", run(C.verify, [root]))
print("slash verify-dh", run(C.verify, [root + "/", "-dh"]))
os.chdir(root)
print("rel create", run(C.create, [".", "-h", "md5"]))
print("rel verify", run(C.verify, ["."]))
print("rel verify-dh", run(C.verify, [".", "-dh"]))
print("rel diff", run(C.diff, ["."]))
print(sorted(os.listdir(root + "/ascmhl")))
os.chdir("/"); shutil.rmtree(d)

# -sf folder vs ignore patterns
d = fresh(); root = d + "/root"; w(root + "/a.txt", "a"); w(root + "/s/b.txt", "b"); w(root + "/s/x.tmp", "x")
print("D9 create -i", run(C.create, [root, "-h", "md5", "-i", "*.tmp"]))
print("D9 create -sf s", run(C.create, [root, "-h", "md5", "-sf", root + "/s"]))
m = sorted(glob.glob(root + "/ascmhl/0002*.mhl"))[0]
print("D9 x.tmp recorded in gen2:", "x.tmp" in open(m).read())
print("D9 verify", run(C.verify, [root]))
shutil.rmtree(d)

# rename chain over generations
d = fresh(); root = d + "/root"; w(root + "/a.txt", "a"); w(root + "/k.txt", "k")
print("D10 g1", run(C.create, [root, "-h", "md5"]))
os.rename(root + "/a.txt", root + "/b.txt")
print("D10 g2 -dr", run(C.create, [root, "-h", "md5", "-dr"]))
print("D10 verify", run(C.verify, [root]))
os.rename(root + "/b.txt", root + "/c.txt")
print("D10 g3 -dr", out(C.create, [root, "-h", "md5", "-dr"]))
print("D10 verify", out(C.verify, [root]))
shutil.rmtree(d)

# multiple renames + move across dirs + unrelated new file
d = fresh(); root = d + "/root"; w(root + "/a.txt", "a"); w(root + "/s/b.txt", "b"); w(root + "/t/c.txt", "c")
print("R g1", run(C.create, [root, "-h", "md5"]))
os.rename(root + "/a.txt", root + "/s/a2.txt"); os.rename(root + "/s/b.txt", root + "/t/b.txt"); w(root + "/new.txt", "n")
print("R g2 -dr", out(C.create, [root, "-h", "md5", "-dr"]))
print("R verify", out(C.verify, [root])); print("R diff", out(C.diff, [root])); print("R create", out(C.create, [root, "-h", "md5"]))
shutil.rmtree(d)

# nested with different formats, verify -dh
d = fresh(); root = d + "/root"; w(root + "/a.txt", "a"); w(root + "/N/n.txt", "n")
print("N child", run(C.create, [root + "/N", "-h", "md5"]))
print("N root", run(C.create, [root, "-h", "xxh64"]))
print("N verify-dh", run(C.verify, [root, "-dh"]))
print("N verify", run(C.verify, [root]))
shutil.rmtree(d)

# crash residue: empty ascmhl folder
d = fresh(); root = d + "/root"; w(root + "/a.txt", "a"); os.mkdir(root + "/ascmhl")
print("empty ascmhl create", run(C.create, [root, "-h", "md5"]))
shutil.rmtree(d)

# only file deleted
d = fresh(); root = d + "/root"; w(root + "/a.txt", "a")
print("one g1", run(C.create, [root, "-h", "md5"])); os.remove(root + "/a.txt")
print("one verify", run(C.verify, [root])); print("one diff", run(C.diff, [root])); print("one create", run(C.create, [root, "-h", "md5"]))
shutil.rmtree(d)

# same-second runs
d = fresh(); root = d + "/root"; w(root + "/a.txt", "a")
from freezegun import freeze_time
with freeze_time("2020-01-15 13:00:00"):
    print("ss1", run(C.create, [root, "-h", "md5"])); print("ss2", run(C.create, [root, "-h", "md5"])); print("ss3", run(C.create, [root, "-h", "md5", "-sf", root + "/a.txt"]))
print(sorted(os.listdir(root + "/ascmhl"))); print(open(root + "/ascmhl/ascmhl_chain.xml").read())
shutil.rmtree(d)
