"""C16 probe: real utils.datetime_isostring under a symbolic zone/clock model."""
import time as _time, z3, pse, types
from pse import SymInt, SymBool, Engine
import ascmhl.utils as U

class Zone:
    def __init__(self, e):
        self.std = e.fresh_int("std_off_min", -14*60, 14*60) * 60
        self.has_dst = e.fresh_int("has_dst", 0, 1)
        self.isdst_f = z3.Function("isdst", z3.IntSort(), z3.BoolSort())
    def isdst(self, t):
        tz = t.z if isinstance(t, SymInt) else z3.IntVal(t)
        return SymBool(z3.And(self.has_dst.z == 1, self.isdst_f(tz)))
    def off(self, t):
        return self.std + 3600 if self.isdst(t) else self.std

class FTimedelta:
    def __init__(self, seconds=0): self.seconds = seconds
class FTimezone:
    utc = None
    def __init__(self, offset): self.offset = offset
class FDT:
    """naive: wall seconds; aware: wall seconds + offset seconds"""
    def __init__(self, zone, wall, micro=0, off=None, src=None): self.zone, self.wall, self.micro, self.off, self.src = zone, wall, micro, off, src
    def replace(self, microsecond=None, tzinfo=Ellipsis):
        r = FDT(self.zone, self.wall, self.micro if microsecond is None else microsecond, self.off, self.src)
        if tzinfo is not Ellipsis: r.off = None if tzinfo is None else tzinfo.offset.seconds
        return r
    def astimezone(self, tz=None):
        assert tz is None
        if self.off is None:   # naive = local time; we know the source instant (fold-exact)
            t = self.src; o = self.zone.off(t); return FDT(self.zone, t + o, self.micro, o, t)
        t = self.wall - self.off; o = self.zone.off(t); return FDT(self.zone, t + o, self.micro, o, t)
    def isoformat(self): return Iso(self.wall, self.off)
class Iso(str):
    def __new__(cls, wall, off):
        o = str.__new__(cls, "\x00ISO\x00"); o.wall, o.off = wall, off; return o

def make_mods(zone, t_now):
    class dtcls:
        @staticmethod
        def now(tz=None):
            if tz is None: return FDT(zone, t_now + zone.off(t_now), 0, None, t_now)
            return FDT(zone, t_now, 0, 0, t_now)
        @staticmethod
        def fromtimestamp(t): return FDT(zone, t + zone.off(t), 0, None, t)
    dtmod = types.SimpleNamespace(datetime=dtcls, timedelta=FTimedelta, timezone=FTimezone)
    class LT:
        def __init__(self, t): self.t = t
        @property
        def tm_isdst(self): return 1 if zone.isdst(self.t) else 0
    tmod = types.SimpleNamespace(localtime=lambda t=None: LT(t_now if t is None else t), timezone=-zone.std, altzone=-(zone.std + 3600 * zone.has_dst))
    return dtmod, tmod

def harness(t_file, t_now):
    e = Engine.cur
    zone = Zone(e)
    dtmod, tmod = make_mods(zone, t_now)
    old = (U.datetime, U.time); U.datetime, U.time = dtmod, tmod
    try:
        s = U.datetime_isostring(dtmod.datetime.fromtimestamp(t_file))
    finally:
        U.datetime, U.time = old
    if not isinstance(s, Iso) or s.off is None: raise pse.Violation("not an aware iso string")
    if (s.wall - s.off) != t_file: raise pse.Violation("denotes wrong instant")
    if s.off != zone.off(t_file): raise pse.Violation("offset not the one in force at that instant")

e = pse.Engine(); t = _time.time()
print(e.explore(harness, lambda e: [e.fresh_int("t_file", 0, 2**33), e.fresh_int("t_now", 0, 2**33)]),
      "paths", e.paths, "queries", e.queries, "wall", round(_time.time() - t, 2))
