import os, shutil, tempfile, traceback
from click.testing import CliRunner
import ascmhl.commands as C

def run(cmd, args):
    r = CliRunner().invoke(cmd, args)
    exc = None
    if r.exception and not isinstance(r.exception, SystemExit):
        exc = repr(r.exception)
    return r.exit_code, exc, r.output

def fresh():
    d = tempfile.mkdtemp(prefix="mhlp_")
    return d

# D1: format sequence abort
d = fresh(); root = os.path.join(d, "root"); os.makedirs(root)
open(os.path.join(root, "a.txt"), "w").write("hello")
print("D1 g1", run(C.create, [root, "-h", "xxh64"])[:2])
print("D1 g2", run(C.create, [root, "-h", "md5"])[:2])
print("D1 g3", run(C.create, [root, "-h", "md5", "-h", "sha1"])[:2])
shutil.rmtree(d)

# D2: empty file size
d = fresh(); root = os.path.join(d, "root"); os.makedirs(root)
open(os.path.join(root, "empty.bin"), "w").close()
print("D2", run(C.create, [root, "-h", "md5"])[:2])
import glob
print(open(glob.glob(root + "/ascmhl/*.mhl")[0]).read().split("<hashes>")[1][:300])
shutil.rmtree(d)

# D3b: verify on a tree with no files
d = fresh(); root = os.path.join(d, "root"); os.makedirs(os.path.join(root, "emptydir"))
print("D3b create", run(C.create, [root, "-h", "md5"])[:2])
print("D3b verify", run(C.verify, [root])[:2])
print("D3b diff", run(C.diff, [root])[:2])
shutil.rmtree(d)

# D4: verify -dh flat folder root-level change
d = fresh(); root = os.path.join(d, "root"); os.makedirs(root)
open(os.path.join(root, "a.txt"), "w").write("hello")
print("D4 create", run(C.create, [root, "-h", "md5"])[:2])
print("D4 verify-dh unchanged", run(C.verify, [root, "-dh"])[:2])
open(os.path.join(root, "a.txt"), "w").write("HELLO")
print("D4 verify-dh changed", run(C.verify, [root, "-dh"]))
shutil.rmtree(d)

# D4b: verify -dh with -n generation
d = fresh(); root = os.path.join(d, "root"); os.makedirs(os.path.join(root, "sub"))
open(os.path.join(root, "sub", "a.txt"), "w").write("hello")
print("D4b create -n", run(C.create, [root, "-h", "md5", "-n"])[:2])
print("D4b verify-dh", run(C.verify, [root, "-dh"])[:2])
shutil.rmtree(d)

# D5: root under a folder named ascmhl
d = fresh(); root = os.path.join(d, "ascmhl", "proj"); os.makedirs(root)
open(os.path.join(root, "a.txt"), "w").write("hello")
print("D5 create", run(C.create, [root, "-h", "md5", "-v"]))
shutil.rmtree(d)

# D11: empty folder -> xsd validity
d = fresh(); root = os.path.join(d, "root"); os.makedirs(root)
print("D11 create", run(C.create, [root, "-h", "md5"])[:2])
f = glob.glob(root + "/ascmhl/*.mhl")[0]
os.chdir("/repo")
print("D11 xsd", run(C.xsd_schema_check, [f]))
shutil.rmtree(d)
