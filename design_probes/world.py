"""Throwaway prototype: run the real create/verify command functions against a modelled OS / lxml / hash environment."""
import posixpath, io, re, sys, types, datetime as _dt, itertools
import z3
import pse
from pse import SymInt, SymBool, Engine

import ascmhl.commands as C, ascmhl.history as Hi, ascmhl.hashlist as HL, ascmhl.hashlist_xml_parser as XP
import ascmhl.chain_xml_parser as CP, ascmhl.hasher as HA, ascmhl.traverse as TR, ascmhl.generator as G
import ascmhl.ignore as IG, ascmhl.utils as U, ascmhl.logger as LG

# ---------------- hash model
class HashModel:
    def __init__(self):
        self.funcs = {}
        self.terms = []  # (alg, seq term, value)
    def digest(self, alg, items):
        args = [z3.IntVal(x) if isinstance(x, int) else (x.z if isinstance(x, pse.SymInt) else x) for x in items]
        n = len(args)
        f = self.funcs.setdefault((alg, n), z3.Function("H_%s_%d" % (alg, n), *([z3.IntSort()] * (n + 1))) if n else z3.Int("H_%s_0" % alg))
        val = f(*args) if n else f
        e = Engine.cur
        for (a2, args2, v2) in self.terms:
            if a2 == alg:
                if len(args2) == n:
                    if n: e.solver.add(z3.And(*[x == y for x, y in zip(args, args2)]) == (v2 == val))
                else:
                    e.solver.add(v2 != val)
        self.terms.append((alg, args, val))
        return Dig(alg, val)

class Dig(str):
    def __new__(cls, alg, val):
        o = str.__new__(cls, "\x00DIG\x00"); o.alg = alg; o.val = val; return o
    def __eq__(self, o):
        if not isinstance(o, Dig): return False
        if o.alg != self.alg: return False
        return SymBool(self.val == o.val)
    def __ne__(self, o):
        r = self.__eq__(o)
        return (not r) if isinstance(r, bool) else ~r
    def __lt__(self, o): return SymBool(self.val < o.val)
    def __hash__(self): raise pse.Concretization("hash(Dig)")
    def __format__(self, s): return "<dig>"

class BytesTok:
    def __init__(self, items): self.items = items
    def __radd__(self, other):  # bytes + BytesTok
        return BytesTok([("bytes", other)] + self.items)

BYTES_IDS = {}
def bytes_id(b):
    return BYTES_IDS.setdefault(bytes(b), 1000 + len(BYTES_IDS))

class RecHasher:
    def __init__(self, world, alg): self.world, self.alg, self.items = world, alg, []
    def update(self, data):
        if isinstance(data, Chunk): self.items.append(("chunk", data))
        elif isinstance(data, BytesTok): self.items.extend(data.items)
        else: self.items.append(("bytes", bytes(data)))
    def hexdigest(self):
        flat = []
        chunks = [d for k, d in self.items if k == "chunk"]
        if chunks:
            assert len(chunks) == len(self.items)
            pos = 0
            for c in chunks:
                assert c.start == pos; pos = c.end
            assert pos == chunks[0].node.size
            flat = [1, chunks[0].node.cid]
        else:
            for k, d in self.items:
                if k == "bytes": flat += [2, bytes_id(d)]
                else: flat += [3, d]
        return self.world.hm.digest(self.alg, flat)

class Chunk:
    def __init__(self, node, s, e): self.node, self.start, self.end = node, s, e
    def __bool__(self):
        r = self.end > self.start
        return r if isinstance(r, bool) else bool(r)

# ---------------- fs model
class Node:
    def __init__(self, kind, cid=None, size=None, mtime=0):
        self.kind, self.cid, self.size, self.mtime = kind, cid, size, mtime
        self.content = None   # for written files: list of tokens

class ReadFile:
    def __init__(self, node): self.node, self.pos = node, 0
    def __enter__(self): return self
    def __exit__(self, *a): return False
    def close(self): pass
    def read(self, size=-1):
        n = self.node.size
        avail = n - self.pos
        k = avail if (size < 0 or size > avail) else size
        c = Chunk(self.node, self.pos, self.pos + k); self.pos += k; return c

class WriteFile:
    def __init__(self, world, path, node): self.world, self.path, self.node = world, path, node
    def write(self, b):
        self.node.content.append(b); self.node.size = (self.node.size or 0) + len(b); self.world.ops.append(("write", self.path, len(b)))
    def flush(self): self.world.ops.append(("flush", self.path))
    def close(self): self.world.ops.append(("close", self.path))

class World:
    def __init__(self):
        self.nodes = {"/": Node("dir")}
        self.ops = []; self.hm = HashModel(); self.next_cid = 1; self.registry = {}; self.log = []
    def add_file(self, path, cid=None, size=5, mtime=0):
        self.mkdirs(posixpath.dirname(path))
        if cid is None: cid = self.next_cid; self.next_cid += 1
        self.nodes[path] = Node("file", cid, size, mtime)
    def mkdirs(self, p):
        if p not in self.nodes:
            self.mkdirs(posixpath.dirname(p)); self.nodes[p] = Node("dir")
    # os functions
    def listdir(self, p): return [posixpath.basename(q) for q in self.nodes if q != "/" and posixpath.dirname(q) == p]
    def exists(self, p): return p in self.nodes
    def isdir(self, p): return p in self.nodes and self.nodes[p].kind == "dir"
    def islink(self, p): return False
    def getsize(self, p): return self.nodes[p].size
    def getmtime(self, p): return self.nodes[p].mtime
    def mkdir(self, p):
        self.ops.append(("mkdir", p)); assert posixpath.dirname(p) in self.nodes and p not in self.nodes; self.nodes[p] = Node("dir")
    def walk(self, top):
        names = self.listdir(top)
        dirs = [n for n in names if self.isdir(posixpath.join(top, n))]
        files = [n for n in names if not self.isdir(posixpath.join(top, n))]
        yield top, dirs, files
        for d in dirs:
            yield from self.walk(posixpath.join(top, d))
    def open(self, path, mode="r"):
        if mode == "rb":
            return ReadFile(self.nodes[path])
        if mode == "wb":
            self.ops.append(("open_w", path))
            n = Node("file", self.next_cid, None); self.next_cid += 1; n.content = []
            self.nodes[path] = n
            return WriteFile(self, path, n)
        raise NotImplementedError(mode)

def make_os(world):
    path = types.SimpleNamespace(**{k: getattr(posixpath, k) for k in
        ["join", "dirname", "basename", "normpath", "relpath", "isabs", "splitext", "abspath"]})
    path.exists = world.exists; path.isdir = world.isdir; path.islink = world.islink
    path.getsize = world.getsize; path.getmtime = world.getmtime
    path.realpath = lambda p: p
    return types.SimpleNamespace(path=path, listdir=world.listdir, walk=world.walk, mkdir=world.mkdir,
                                 getcwd=lambda: "/", name="posix", sep="/")

# ---------------- xml model
class El:
    def __init__(self, tag, text=None, attrib=None): self.tag, self.text, self.attrib, self.children = tag, text, dict(attrib or {}), []
    def append(self, c): self.children.append(c)
    def clear(self): pass
    def getprevious(self): return None
class _E:
    def __call__(self, tag, *children, **attrib):
        e = El(tag, attrib=attrib)
        for c in children:
            if isinstance(c, El): e.append(c)
            elif isinstance(c, str): e.text = c
            else: raise TypeError(c)
        return e
    def __getattr__(self, tag): return lambda *c, **a: self(tag, *c, **a)
XML_REG = {}
class FakeEtree:
    @staticmethod
    def tostring(el, pretty_print=False, encoding=None):
        k = len(XML_REG); XML_REG[k] = el
        return "\x00XML%d\x00\n" % k
    @staticmethod
    def iterparse(f, events=()):
        toks = tokens_of(f.node.content)
        yield from events_of(toks)
def tokens_of(content):
    data = b"".join(content).decode("utf-8")
    out = []
    for m in re.finditer(r"\x00XML(\d+)\x00|<\?xml[^>]*\?>|<(/?)([a-z]+)([^>]*)>", data):
        if m.group(1) is not None: out.append(("el", XML_REG[int(m.group(1))]))
        elif m.group(3): out.append(("close" if m.group(2) else "open", m.group(3)))
    return out
def events_of(toks):
    def walk(el):
        yield "start", el
        for c in el.children: yield from walk(c)
        yield "end", el
    stack = []
    for k, v in toks:
        if k == "open":
            e = El(v); stack.append(e); yield "start", e
        elif k == "close":
            e = stack.pop(); assert e.tag == v; yield "end", e
        else:
            yield from walk(v)
    assert not stack, "ill-formed"

class FakeNow:
    def __init__(self, t): self.t = t
    def replace(self, **k): return self
    def isoformat(self): return "T%d" % self.t
    def strftime(self, f): return "2020-01-15" if f == "%Y-%m-%d" else "2020-01-15_130000Z"
class FakeDT:
    timezone = _dt.timezone; timedelta = _dt.timedelta
    class datetime:
        @staticmethod
        def now(tz=None): return FakeNow(100)
        @staticmethod
        def fromtimestamp(t): return FakeNow(t)
        @staticmethod
        def strftime(d, f): return d.strftime(f)

def install(world):
    fos = make_os(world)
    saved = []
    def setattr_(mod, name, val):
        saved.append((mod, name, getattr(mod, name, None), hasattr(mod, name))); setattr(mod, name, val)
    for m in (C, Hi, HL, XP, CP, HA, TR):
        setattr_(m, "os", fos); setattr_(m, "open", world.open)
    setattr_(TR, "join", posixpath.join); setattr_(TR, "isdir", world.isdir)
    for m in (XP, CP):
        setattr_(m, "etree", FakeEtree); setattr_(m, "E", _E())
    setattr_(XP, "datetime_isostring", lambda d, k=False: d.isoformat())
    setattr_(U, "datetime", FakeDT); setattr_(C, "datetime", FakeDT); setattr_(HL, "datetime", FakeDT.datetime); setattr_(Hi, "datetime", FakeDT.datetime)
    setattr_(XP, "dateutil", types.SimpleNamespace(parser=types.SimpleNamespace(parse=lambda s: FakeNow(0))))
    import builtins
    setattr_(XP, "int", lambda x: x.sym if isinstance(x, pse.DecStr) else builtins.int(x))
    hl = types.SimpleNamespace(md5=lambda: RecHasher(world, "md5"), sha1=lambda: RecHasher(world, "sha1"), sha512=lambda: RecHasher(world, "sha512"))
    xx = types.SimpleNamespace(xxh32=lambda: RecHasher(world, "xxh32"), xxh64=lambda: RecHasher(world, "xxh64"), xxh3_64=lambda: RecHasher(world, "xxh3_64"), xxh3_128=lambda: RecHasher(world, "xxh3_128"))
    setattr_(HA, "hashlib", hl); setattr_(HA, "xxhash", xx)
    setattr_(HA, "binascii", types.SimpleNamespace(unhexlify=lambda d: BytesTok([("dig", d.val)])))
    setattr_(HA.C4, "string_digest", lambda self: self.hasher.hexdigest())
    setattr_(HA.C4, "bytes_from_string_digest", classmethod(lambda cls, d: BytesTok([("dig", d.val)])))
    for fn in ("info", "error", "verbose", "debug"):
        setattr_(LG, fn, (lambda kind: lambda msg, *a: world.log.append((kind, msg)))(fn))
    def restore():
        for mod, name, old, had in reversed(saved):
            if had: setattr(mod, name, old)
            else: delattr(mod, name)
    return restore
