"""C4 codec with proxies: real C4.string_digest / bytes_from_string_digest on a symbolic 512-bit value."""
import time, builtins, z3, pse
from pse import SymInt, SymBool
import ascmhl.hasher as HA

REAL = "123456789ABCDEFGHJKLMNPQRSTUVWXYZabcdefghijkmnopqrstuvwxyz"

class SymChar:
    def __init__(self, idx): self.idx = idx          # SymInt digit value, invariant 0<=idx<58
    def __add__(self, o): return SymSeq([self]) + o
class SymSeq:
    def __init__(self, items): self.items = list(items)
    def __add__(self, o):
        if isinstance(o, str): return SymSeq(self.items + list(o))
        return SymSeq(self.items + o.items)
    def __radd__(self, o): return SymSeq(list(o) + self.items)
    def rjust(self, n, fill): return SymSeq([fill] * max(0, n - len(self.items)) + self.items)
    def __getitem__(self, i): return self.items[i]
    def __len__(self): return len(self.items)
class SymCharset:
    def __init__(self, s): self.s = s
    def __getitem__(self, i):
        if isinstance(i, SymInt):
            if not (SymBool(z3.And(i.z >= 0, i.z < len(self.s)))): raise IndexError
            return SymChar(i)
        return self.s[i]
    def index(self, ch):
        if isinstance(ch, SymChar): return ch.idx
        return self.s.index(ch)
class HexTok(str): pass
class FakeSha:
    def hexdigest(self):
        t = HexTok("\x00HEX\x00"); t.v = self.v; return t
class BytesVal:
    def __init__(self, v, n): self.v, self.n = v, n
def to_bytes(self, n, byteorder="big"):
    if not SymBool(z3.And(self.z >= 0, self.z < 256 ** n)): raise OverflowError
    return BytesVal(self, n)
SymInt.to_bytes = to_bytes

def codec(v):
    c = HA.C4.__new__(HA.C4); c.hasher = FakeSha(); c.hasher.v = v
    HA.int = lambda x, b=10: x.v if isinstance(x, HexTok) else builtins.int(x, b)
    old = HA.C4.charset; HA.C4.charset = SymCharset(old)
    try:
        assert old == REAL
        s = c.string_digest()
        if len(s) != 90 or s[0] != "c" or s[1] != "4": raise pse.Violation("shape")
        # spec: big-endian base-58 digits, '1'-padded
        acc = 0
        for ch in (list(s) if isinstance(s, str) else s.items)[2:]:
            d = ch.idx if isinstance(ch, SymChar) else REAL.index(ch)
            acc = acc * 58 + d
        if acc != v: raise pse.Violation("encode != spec")
        b = HA.C4.bytes_from_string_digest(s)
        if not isinstance(b, BytesVal) or b.n != 64 or (b.v != v): raise pse.Violation("decode(encode(v)) != v")
    finally:
        HA.C4.charset = old; del HA.int

e = pse.Engine(); t = time.time()
print(e.explore(codec, lambda e: [e.fresh_int("v", 0, 2**512 - 1)]), "paths", e.paths, "queries", e.queries, "solver_s", round(e.solver_time, 2), "wall", round(time.time() - t, 2))
