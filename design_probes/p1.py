"""Probe: symbolic file length through the real Hasher.hash_file loop."""
import ascmhl.hasher as H

MiB = 1024 * 1024

class Chunk:
    def __init__(self, start, end):
        self.start, self.end = start, end
    def __bool__(self):
        return True if self.end > self.start else False
    def __len__(self):
        return self.end - self.start

class FakeFile:
    def __init__(self, n):
        self.n = n; self.pos = 0; self.reads = 0
    def __enter__(self): return self
    def __exit__(self, *a): return False
    def read(self, size=-1):
        self.reads += 1
        if self.reads > 12:
            raise RuntimeError("unwinding bound exceeded")
        avail = self.n - self.pos
        k = avail if (size < 0 or size > avail) else size
        c = Chunk(self.pos, self.pos + k)
        self.pos = self.pos + k
        return c

class RecHasher:
    """stands in for hashlib object: records the byte intervals it is fed"""
    def __init__(self):
        self.ivs = []
    def update(self, chunk):
        self.ivs.append((chunk.start, chunk.end))
    def hexdigest(self):
        return "00"

class Probe(H.HexHasher):
    @staticmethod
    def hashlib_type():
        return RecHasher

def covered(n: int) -> bool:
    """
    pre: 0 <= n <= 8 * 1048576 + 1
    post: _ == True
    """
    ff = FakeFile(n)
    captured = []
    orig_init = H.Hasher.__init__
    def fake_open(path, mode="r"):
        assert mode == "rb"
        return ff
    H.open = fake_open
    try:
        class P2(Probe):
            def __init__(self):
                super().__init__()
                captured.append(self.hasher)
        P2.hash_file("/x")
    finally:
        del H.open
    ivs = captured[0].ivs
    pos = 0
    for (a, b) in ivs:
        if a != pos or b <= a:
            return False
        pos = b
    return pos == n
