import os, shutil, tempfile, subprocess, sys, textwrap
from click.testing import CliRunner
import ascmhl.commands as C
d = tempfile.mkdtemp(prefix="mhlp_"); root = d + "/root"; os.makedirs(root); open(root + "/a.txt", "w").write("a")
assert CliRunner().invoke(C.create, [root, "-h", "md5"]).exit_code == 0
script = textwrap.dedent(f"""
    import os, ascmhl.chain_xml_parser as CP, ascmhl.hashlist_xml_parser as XP, ascmhl.commands as C
    from click.testing import CliRunner
    MODE = os.environ['MODE']
    if MODE == 'chain':
        def die(*a, **k): os._exit(9)
        CP._write_xml_element_to_file = die      # killed right after the chain was truncated and its header written
    else:
        orig = XP._write_xml_element_to_file; n = [0]
        def die(f, el, ind):
            n[0] += 1
            if n[0] == 2: f.flush(); os._exit(9)  # killed in the middle of the manifest
            orig(f, el, ind)
        XP._write_xml_element_to_file = die
    CliRunner().invoke(C.create, [{root!r}, '-h', 'md5'])
""")
for mode in ("manifest", "chain"):
    w = tempfile.mkdtemp(prefix="mhlp_"); shutil.copytree(root, w + "/root")
    r = subprocess.run(["/venv/bin/python", "-c", script.replace(root, w + "/root")], env={**os.environ, "MODE": mode})
    print(mode, "killed with", r.returncode, sorted(os.listdir(w + "/root/ascmhl")))
    for cmd, args in ((C.info, [w + "/root"]), (C.verify, [w + "/root"]), (C.create, [w + "/root", "-h", "md5"])):
        res = CliRunner().invoke(cmd, args)
        print("   ", cmd.name, res.exit_code, type(res.exception).__name__ if res.exception else None)
    shutil.rmtree(w)
shutil.rmtree(d)
