import z3, time, re, pathspec
try:
    import re._parser as sre_parse, re._constants as sc
except ImportError:
    import sre_parse, sre_constants as sc

def tr(pat):
    def seq(items):
        rs = [node(op, av) for op, av in items]
        if not rs: return z3.Re("")
        return z3.Concat(*rs) if len(rs) > 1 else rs[0]
    anychar = z3.Range(chr(1), chr(0x7f))   # bounded alphabet
    def node(op, av):
        op = str(op)
        if op == "LITERAL": return z3.Re(chr(av))
        if op == "NOT_LITERAL": return z3.Intersect(anychar, z3.Complement(z3.Re(chr(av))))
        if op == "ANY": return z3.Intersect(anychar, z3.Complement(z3.Re("\n")))
        if op == "AT": return z3.Re("")   # anchors handled by fullmatch use
        if op == "SUBPATTERN": return seq(av[3])
        if op == "BRANCH": return z3.Union(*[seq(b) for b in av[1]])
        if op in ("MAX_REPEAT", "MIN_REPEAT"):
            lo, hi, sub = av; r = seq(sub)
            if hi == sc.MAXREPEAT:
                return z3.Star(r) if lo == 0 else (z3.Plus(r) if lo == 1 else z3.Concat(z3.Loop(r, lo, lo), z3.Star(r)))
            return z3.Loop(r, lo, hi)
        if op == "IN":
            parts = []
            neg = False
            for o, a in av:
                o = str(o)
                if o == "NEGATE": neg = True
                elif o == "LITERAL": parts.append(z3.Re(chr(a)))
                elif o == "RANGE": parts.append(z3.Range(chr(a[0]), chr(a[1])))
                else: raise NotImplementedError(o)
            u = z3.Union(*parts) if len(parts) > 1 else parts[0]
            return z3.Intersect(anychar, z3.Complement(u)) if neg else u
        raise NotImplementedError(op)
    return seq(list(sre_parse.parse(pat)))

spec = pathspec.PathSpec.from_lines("gitwildmatch", [".DS_Store", "ascmhl", "ascmhl/", "*.tmp"])
for p in spec.patterns: print(p.include, p.regex.pattern)
P = z3.String("P")
alpha = z3.Star(z3.Range(chr(0x20), chr(0x7e)))
for rel in ["a.txt", "d/b.txt", "x.tmp"]:
    t = time.time()
    s = z3.Solver(); s.set("timeout", 60000)
    s.add(z3.InRe(P, alpha), z3.Length(P) <= 12, z3.PrefixOf("/", P), z3.Not(z3.SuffixOf("/", P)))
    absn = z3.Concat(z3.SubString(P, 1, z3.Length(P) - 1), z3.StringVal("/" + rel))   # normalize_file strips one leading '/'
    m_abs = z3.Or(*[z3.InRe(absn, tr(p.regex.pattern)) for p in spec.patterns])
    m_rel = z3.Or(*[z3.InRe(z3.StringVal(rel), tr(p.regex.pattern)) for p in spec.patterns])
    s.add(m_abs != m_rel)
    r = s.check()
    print(rel, r, s.model()[P] if str(r) == "sat" else None, round(time.time() - t, 2))
