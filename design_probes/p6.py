import time, pse, world as W
import ascmhl.commands as C
from ascmhl import errors

def code_of(fn, **kw):
    try:
        fn(**kw); return 0
    except errors.click.ClickException as e:
        return e.exit_code

def scenario(v, sz):
    w = W.World()
    w.add_file("/root/a.txt", cid=1, size=sz)
    w.add_file("/root/d/b.txt", cid=2, size=7)
    w.add_file("/root/d/e/c.txt", cid=3, size=9)
    restore = W.install(w)
    try:
        kw = dict(root_path="/root", verbose=False, hash_format=("md5", "c4"), no_directory_hashes=False, detect_renaming=False,
                  single_file=(), ignore_list=(), ignore_spec_file=None, author_name=None, author_email=None,
                  author_phone=None, author_role=None, location=None, comment=None)
        r1 = code_of(C.create.callback, **kw)
        # mutate: content of b.txt becomes version v (symbolic): changed iff v != 2
        w.nodes["/root/d/b.txt"].cid = v
        r2 = code_of(C.verify.callback, root_path="/root", verbose=False, directory_hash=False, hash_format=None, single_file=None,
                     packing_list=None, ignore_list=(), ignore_spec_file=None, calculate_only=False, root_only=False)
        exp = pse.SymBool(v.z == 2) if isinstance(v, pse.SymInt) else (v == 2)
        if exp:
            if r2 != 0: raise pse.Violation("false alarm %r" % r2)
        else:
            if r2 != 11: raise pse.Violation("missed change %r" % r2)
        if r1 != 0: raise pse.Violation("create failed %r" % r1)
        return w
    finally:
        restore()

if __name__ == "__main__":
    e = pse.Engine(); t = time.time()
    res = e.explore(lambda v, sz: scenario(v, sz), lambda e: [e.fresh_int("v", 0, 5), e.fresh_int("sz", 0, 2*1048576+1)])
    print(res, "paths", e.paths, "queries", e.queries, "solver_s", round(e.solver_time, 2), "wall", round(time.time() - t, 2))
