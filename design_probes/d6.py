import os, shutil, tempfile, glob, re
from click.testing import CliRunner
import ascmhl.commands as C
d = tempfile.mkdtemp(prefix="mhlp_"); root = d + "/root"
names = ["kid%02d" % i for i in range(8)]
for n in names:
    os.makedirs(root + "/" + n); open(root + "/" + n + "/f.txt", "w").write(n)
    assert CliRunner().invoke(C.create, [root + "/" + n, "-h", "md5"]).exit_code == 0
print("listdir order:", os.listdir(root))
assert CliRunner().invoke(C.create, [root, "-h", "md5"]).exit_code == 0
m = glob.glob(root + "/ascmhl/*.mhl")[0]
refs = re.findall(r"<path>(kid\d+)/ascmhl", open(m).read())
print("reference order:", refs, "sorted" if refs == sorted(refs) else "NOT SORTED")
shutil.rmtree(d)
