#!/bin/bash
# usage: mut.sh <prop> <file> <python-expr old> <new>   -- apply a textual change to /repo, run the quick check, revert
prop=$1; file=$2; old=$3; new=$4
if ! git -C /repo diff --quiet; then echo "refusing: /repo has uncommitted changes"; exit 8; fi
cd /repo && python3 - "$file" "$old" "$new" <<'PY'
import sys
p, old, new = sys.argv[1:4]
s = open(p).read()
assert s.count(old) >= 1, "pattern not found"
open(p, "w").write(s.replace(old, new, 1))
PY
[ $? -eq 0 ] || exit 9
cd /verif && ./check $prop 2>&1 | grep -E "VIOLATION|KNOWN|HARNESS-ERROR|INCONCLUSIVE|exit|assert=" | head -12
git -C /repo diff --quiet HEAD -- . && true; git -C /repo checkout -- .
