#!/usr/bin/env python3
"""writes seeded/README.md from seeded/*/meta.json"""
import glob, json, os
rows = []
green = []
for f in sorted(glob.glob("/verif/seeded/*/meta.json")):
    m = json.load(open(f))
    if "id" not in m:
        green.append((os.path.basename(os.path.dirname(f)), m))
        continue
    r = m.get("what_i_ran", {})
    lines = r.get("check_lines", [])
    caught = next((l.strip() for l in lines if l.strip().startswith("assert=")), "")
    rows.append((m["id"], m["property"], (m.get("summary") or "").replace("\n", " ").replace("|", "/")[:260],
                 (m.get("needs_to_manifest") or "").replace("\n", " ").replace("|", "/")[:260],
                 "yes" if r.get("confirmed") else ("void at HEAD" if m.get("void") else "NO"),
                 "caught (exit 1)" if r.get("detected") else ("- (%s)" % m["void"] if m.get("void") else "MISSED (exit %s)" % r.get("check_exit")),
                 caught.replace("|", "/")[:200], r.get("repo_commit", ""), r.get("check_wall_s")))
with open("/verif/seeded/README.md", "w") as out:
    out.write("# Seeded changes\n\nEach folder: `patch.diff` (apply with `git -C /repo apply`), `demo.py` (exits 1 with the change, 0 without; "
              "run as `PYTHONPATH=<tree> /venv/bin/python demo.py`), `meta.json` (what it breaks, what it needs to manifest, what was run).\n"
              "Confirmed = in a scratch worktree the 79 tests pass with the change, the demo fails with it and passes without it.\n"
              "Check = the property's quick check run against /repo with the change applied (and undone afterwards).\n\n")
    out.write("| id | change | needs to manifest | confirmed | quick check | first assertion that fires | /repo commit | s |\n|---|---|---|---|---|---|---|---|\n")
    for r in rows:
        out.write("| %s | %s | %s | %s | %s | %s | %s | %s |\n" % (r[0], r[2], r[3], r[4], r[5], r[6], r[7], r[8]))
    valid = [r for r in rows if not r[5].startswith("- (")]
    n = len(valid); c = sum(1 for r in valid if r[5].startswith("caught"))
    out.write("\n%d of %d seeded changes are caught by the quick tier" % (c, n))
    missed = [r[0] for r in valid if not r[5].startswith("caught")]
    out.write((" (not caught: %s)" % ", ".join(missed) if missed else "") + "; %d further change(s) are void at the current /repo HEAD.\n" % (len(rows) - n))
    out.write("\n## Behaviour-preserving refactorings (must stay green)\n\n")
    for name, m in green:
        out.write("* `%s`: %s. Result: %s.\n" % (name, m["summary"], m["what_i_ran"]["result"]))
print("seeded/README.md written")
