#!/bin/bash
# run every check of a tier, print one line each
tier=${1:-quick}
cd /verif
for p in C01 C02 C03 C04 C05 C06 C07 C08 C09 C10 C11 C12 C13 C14 C15 C16 C17 C18 C19 C20; do
  [ -f verif/harness/${p,,}.py ] || continue
  out=$(timeout 7200 ./check $p --tier $tier 2>&1); rc=$?
  echo "$p rc=$rc $(echo "$out" | grep -E "^$p $tier" )  $(echo "$out" | grep -cE '^VIOLATION') viol, $(echo "$out" | grep -cE '^KNOWN') known, $(echo "$out" | grep -cE '^HARNESS') herr"
  echo "$out" | grep -E "^(HARNESS|INCONC|VIOLATION|  assert)" | cut -c1-300 | head -6
done
