#!/usr/bin/env python3
"""Confirm a seeded change in a scratch worktree, then run the property's check against it on /repo (apply, run, undo).
usage: seedtest.py <PROP> <variant-dir> [--tier quick] ; writes /verif/seeded/<PROP>-<variant>/"""
import json, os, shutil, subprocess, sys, time

def sh(cmd, cwd=None, env=None, timeout=3600):
    p = subprocess.run(cmd, shell=True, cwd=cwd, env=env, capture_output=True, text=True, timeout=timeout)
    return p.returncode, p.stdout + p.stderr

def main():
    prop, src = sys.argv[1], sys.argv[2].rstrip("/")
    tier = sys.argv[4] if len(sys.argv) > 4 and sys.argv[3] == "--tier" else "quick"
    recheck = "--recheck" in sys.argv  # keep the recorded confirmation (tests, demo) of an already stored change, only re-run the check
    variant = os.path.basename(src)
    sid = "%s-%s" % (prop, variant) if not variant.startswith(prop) else variant
    wt = "/tmp/seedwt-%s" % sid
    patch = os.path.join(src, "patch.diff")
    meta = json.load(open(os.path.join(src, "meta.json"))) if os.path.exists(os.path.join(src, "meta.json")) else {}
    if "what_i_ran" in meta:
        meta = {"summary": meta.get("summary"), "needs_to_manifest": meta.get("needs_to_manifest"), "files_changed": meta.get("files_changed")}
    ran = {}
    assert sh("git -C /repo diff --quiet")[0] == 0, "/repo dirty"
    old = meta.get("what_i_ran") or {}
    if recheck and os.path.exists(os.path.join(src, "meta.json")):
        full = json.load(open(os.path.join(src, "meta.json")))
        old = full.get("what_i_ran") or {}
        meta = {"summary": full.get("summary"), "needs_to_manifest": full.get("needs_to_manifest"), "files_changed": full.get("files_changed")}
    if recheck and old.get("confirmed"):
        ran = {k: old[k] for k in ("demo_unpatched_exit", "tests_tail", "tests_pass", "demo_patched_exit", "demo_patched_tail", "confirmed") if k in old}
        ran["confirmed_at"] = old.get("confirmed_at") or old.get("repo_commit")
        return finish(prop, src, sid, patch, meta, ran, tier)
    sh("git -C /repo worktree remove --force %s" % wt)
    rc, out = sh("git -C /repo worktree add -q --detach %s HEAD" % wt); assert rc == 0, out
    try:
        env = dict(os.environ, PYTHONPATH=wt)
        rc, out = sh("/venv/bin/python demo.py" if False else "/venv/bin/python %s/demo.py" % src, cwd=wt, env=env, timeout=900)
        ran["demo_unpatched_exit"] = rc
        rc, out = sh("git apply %s" % patch, cwd=wt)
        if rc != 0:
            print(sid, "PATCH-DOES-NOT-APPLY", out[:200]); return
        rc, out = sh("/venv/bin/python -c 'import ascmhl; print(ascmhl.__file__)'", cwd=wt, env=env)
        assert wt in out, out
        rc, out = sh("/venv/bin/python -m pytest -q -p no:cacheprovider --timeout=900 2>&1 | tail -3", cwd=wt, env=env, timeout=1800)
        ran["tests_tail"] = out.strip().split("\n")[-1]
        ran["tests_pass"] = "79 passed" in out
        rc, out = sh("/venv/bin/python %s/demo.py" % src, cwd=wt, env=env, timeout=900)
        ran["demo_patched_exit"] = rc
        ran["demo_patched_tail"] = out.strip().split("\n")[-3:]
    finally:
        sh("git -C /repo worktree remove --force %s" % wt)
        shutil.rmtree(wt, ignore_errors=True)
    confirmed = ran.get("tests_pass") and ran.get("demo_patched_exit") == 1 and ran.get("demo_unpatched_exit") == 0
    ran["confirmed"] = bool(confirmed)
    return finish(prop, src, sid, patch, meta, ran, tier)


def finish(prop, src, sid, patch, meta, ran, tier):
    confirmed = ran.get("confirmed")
    # run the check against /repo with the patch applied
    rc, out = sh("git -C /repo apply %s" % patch)
    if rc != 0:
        print(sid, "PATCH-DOES-NOT-APPLY", out[:200]); return
    ran["repo_commit"] = sh("git -C /repo log --format=%h -1")[1].strip()
    try:
        t = time.time()
        env = dict(os.environ, VERIF_FAILFAST="1") if "--failfast" in sys.argv else None
        rc, out = sh("./check %s --tier %s" % (prop, tier), cwd="/verif", env=env, timeout=7200)
        ran["check_cmd"] = "./check %s --tier %s" % (prop, tier)
        ran["check_exit"] = rc
        ran["check_wall_s"] = round(time.time() - t, 1)
        ran["check_lines"] = [l[:300] for l in out.split("\n") if l.startswith(("VIOLATION", "  assert=", "HARNESS-ERROR", "INCONCLUSIVE", "KNOWN"))][:10]
    finally:
        sh("git -C /repo checkout -- . && git -C /repo clean -fdq ascmhl")
    ran["detected"] = ran["check_exit"] == 1
    dst = "/verif/seeded/%s" % sid
    os.makedirs(dst, exist_ok=True)
    if os.path.abspath(dst) != os.path.abspath(src):
        shutil.copy(patch, dst + "/patch.diff")
        shutil.copy(os.path.join(src, "demo.py"), dst + "/demo.py")
    json.dump({"property": prop, "id": sid, "summary": meta.get("summary"), "needs_to_manifest": meta.get("needs_to_manifest"),
               "files_changed": meta.get("files_changed"), "what_i_ran": ran}, open(dst + "/meta.json", "w"), indent=1)
    print(sid, "confirmed" if confirmed else "NOT-CONFIRMED", "check exit", ran["check_exit"], "DETECTED" if ran["detected"] else "MISSED",
          "%.0fs" % ran["check_wall_s"], "|", "; ".join(ran["check_lines"][:3])[:400], flush=True)

main()
