"""development aid: explore the first N paths of one harness in-process, printing each path"""
import sys, time
sys.path.insert(0, "/verif")
from verif import pse
from verif.runner import load_harnesses, run_model_path
prop, name, n = sys.argv[1], sys.argv[2], int(sys.argv[3])
tier = sys.argv[4] if len(sys.argv) > 4 else "quick"
h = [x for x in load_harnesses(prop, tier) if x.name == name][0]
e = pse.Engine(max_paths=n)
t = time.time()
def end(eng):
    print("path", eng.paths, "depth", eng.pos, "2-sided", eng.path_two_sided, round(time.time()-t,2), eng.path_note, flush=True)
e.on_path_end = end
try:
    e.explore(lambda eng: run_model_path(h, eng))
finally:
    print(e.stats()); print(e.violations[:3])
if len(sys.argv) > 5:
    for ent in e.stack: print(ent[1], ent[3], str(ent[0])[:150].replace("\n"," "))
